// Heap observation for C11: what the session cache does to EVERY field of the SessionState
// objects it was given (and of the connection states that share storage with them), seen from
// outside through reflection — no hook names a field, so a field added to SessionState or a
// new write of the cache through a session pointer is observed like the existing ones.
//
// A tracked object is a *SessionState of either stack (all struct fields) or a "holder": the
// PeerCertificates of an open connection (public API). For every field the tracker keeps the
// content at registration time; after every cache operation it re-reads the field and reports
// a change as an event `<op index>:<object>.<field>:<status>` with status
//
//	n  a slice that was not nil is nil now
//	z  the backing array still is the field's storage, its content is all zero / all nil
//	x  anything else (other content, scalar changed)
//
// Storage identity (which objects share a backing array) is the data pointer of the slice.
package main

import (
	"bytes"
	"fmt"
	"hash/fnv"
	"reflect"
	"sort"
	"strconv"
	"strings"
	"unsafe"

	"github.com/emmansun/gmsm/smx509"
)

type fieldKind int

const (
	fkScalar fieldKind = iota
	fkBytes
	fkCerts
	fkSlice
)

type fieldInfo struct {
	name     string
	off      uintptr
	size     uintptr
	kind     fieldKind
	elemSize uintptr
	typ      reflect.Type
	ref      int // position among the reference fields, -1 for scalars
}

type layout struct {
	typ    reflect.Type
	fields []fieldInfo
	refs   []int // indices into fields of the slice / pointer / map … fields, declaration order
}

var certSliceType = reflect.TypeOf([]*smx509.Certificate(nil))

func layoutOf(t reflect.Type) *layout {
	l := &layout{typ: t}
	for i := 0; i < t.NumField(); i++ {
		f := t.Field(i)
		fi := fieldInfo{name: f.Name, off: f.Offset, size: f.Type.Size(), typ: f.Type, ref: -1}
		switch f.Type.Kind() {
		case reflect.Slice:
			fi.elemSize = f.Type.Elem().Size()
			switch {
			case f.Type.Elem().Kind() == reflect.Uint8:
				fi.kind = fkBytes
			case f.Type == certSliceType:
				fi.kind = fkCerts
			default:
				fi.kind = fkSlice
			}
			fi.ref = len(l.refs)
			l.refs = append(l.refs, i)
		case reflect.Ptr, reflect.Map, reflect.Chan, reflect.Func, reflect.Interface:
			fi.ref = len(l.refs)
			l.refs = append(l.refs, i)
		}
		l.fields = append(l.fields, fi)
	}
	return l
}

func (l *layout) refNames() string {
	ss := make([]string, len(l.refs))
	for i, fi := range l.refs {
		ss[i] = l.fields[fi].name
	}
	if len(ss) == 0 {
		return "-"
	}
	return strings.Join(ss, ".")
}

type sliceHeader struct {
	Data unsafe.Pointer
	Len  int
	Cap  int
}

type snap struct {
	isNil   bool
	content []byte
}

type tobj struct {
	id     int
	ptr    unsafe.Pointer               // the struct (nil for holders)
	keep   any                          // keeps the object alive (no address re-use)
	holder func() []*smx509.Certificate // connection states
	base   []snap
	cur    []byte
}

type tracker struct {
	lay    *layout
	objs   []*tobj
	byPtr  map[unsafe.Pointer]*tobj
	bufIDs []map[unsafe.Pointer]int   // conn phase: storage identity per reference field
	bufs   []map[string]reflect.Value // api phase: the buffers named by the case, per reference field
	keep   []any
	events []string
	certs  [2]*smx509.Certificate
}

func newTracker(sessionType reflect.Type) *tracker {
	t := &tracker{lay: layoutOf(sessionType), byPtr: map[unsafe.Pointer]*tobj{}}
	for range t.lay.refs {
		t.bufIDs = append(t.bufIDs, map[unsafe.Pointer]int{})
		t.bufs = append(t.bufs, map[string]reflect.Value{})
	}
	t.certs[0] = &smx509.Certificate{Raw: []byte("verif certificate 0 (signature)")}
	t.certs[1] = &smx509.Certificate{Raw: []byte("verif certificate 1 (encryption)")}
	return t
}

func certContent(cs []*smx509.Certificate, out []byte) []byte {
	for _, c := range cs {
		if c == nil {
			out = append(out, 0, 0, 0, 0, 0, 0, 0, 0)
			continue
		}
		h := fnv.New64a()
		h.Write(c.Raw)
		out = h.Sum(out)
	}
	return out
}

// read returns the nil-ness and the content of field fi of the struct at p.
func (t *tracker) read(p unsafe.Pointer, fi *fieldInfo) (isNil bool, raw, content []byte) {
	addr := unsafe.Add(p, fi.off)
	switch fi.kind {
	case fkScalar:
		raw = unsafe.Slice((*byte)(addr), fi.size)
		return false, raw, raw
	default:
		h := (*sliceHeader)(addr)
		if h.Data == nil || h.Len == 0 {
			return true, nil, nil
		}
		raw = unsafe.Slice((*byte)(h.Data), uintptr(h.Len)*fi.elemSize)
		if fi.kind == fkCerts {
			cs := *(*[]*smx509.Certificate)(addr)
			content = certContent(cs, append([]byte(nil), raw...))
			return false, raw, content
		}
		return false, raw, raw
	}
}

func allZero(b []byte) bool {
	for _, x := range b {
		if x != 0 {
			return false
		}
	}
	return true
}

func statusOf(base snap, isNil bool, raw, content []byte, scalar bool) byte {
	switch {
	case scalar:
		if bytes.Equal(content, base.content) {
			return 'k'
		}
		return 'x'
	case isNil:
		if base.isNil {
			return 'k'
		}
		return 'n'
	case base.isNil:
		return 'x'
	case bytes.Equal(content, base.content):
		return 'k'
	case allZero(raw):
		return 'z'
	}
	return 'x'
}

// register starts tracking the session object s (a pointer to a SessionState).
func (t *tracker) register(id int, s any) *tobj {
	p := reflect.ValueOf(s).UnsafePointer()
	o := &tobj{id: id, ptr: p, keep: s}
	for i := range t.lay.fields {
		fi := &t.lay.fields[i]
		isNil, _, content := t.read(p, fi)
		o.base = append(o.base, snap{isNil: isNil, content: append([]byte(nil), content...)})
		o.cur = append(o.cur, 'k')
		if fi.kind != fkScalar && fi.ref >= 0 && !isNil {
			// keep the backing array alive even after the field is dropped
			t.keep = append(t.keep, reflect.NewAt(fi.typ, unsafe.Add(p, fi.off)).Elem().Interface())
		}
	}
	t.insert(o)
	t.byPtr[p] = o
	return o
}

// insert keeps the tracked objects ordered by identity (the events of one operation come out
// sorted by object, then by field in declaration order).
func (t *tracker) insert(o *tobj) {
	i := sort.Search(len(t.objs), func(i int) bool { return t.objs[i].id > o.id })
	t.objs = append(t.objs, nil)
	copy(t.objs[i+1:], t.objs[i:])
	t.objs[i] = o
}

// registerHolder tracks the peer certificates of an open connection.
func (t *tracker) registerHolder(id int, get func() []*smx509.Certificate) *tobj {
	cs := get()
	o := &tobj{id: id, holder: get, keep: cs}
	o.base = []snap{{isNil: len(cs) == 0, content: t.holderContent(cs)}}
	o.cur = []byte{'k'}
	t.insert(o)
	return o
}

func (t *tracker) holderContent(cs []*smx509.Certificate) []byte {
	if len(cs) == 0 {
		return nil
	}
	raw := unsafe.Slice((*byte)(unsafe.Pointer(unsafe.SliceData(cs))), uintptr(len(cs))*unsafe.Sizeof(cs[0]))
	return certContent(cs, append([]byte(nil), raw...))
}

const holderField = "peerCertificates"

// scan compares every tracked object with its registration-time content and records the
// changes as events of operation number op.
func (t *tracker) scan(op int) {
	for _, o := range t.objs {
		if o.holder != nil {
			cs := o.holder()
			var raw []byte
			if len(cs) > 0 {
				raw = unsafe.Slice((*byte)(unsafe.Pointer(unsafe.SliceData(cs))), uintptr(len(cs))*unsafe.Sizeof(cs[0]))
			}
			st := statusOf(o.base[0], len(cs) == 0, raw, t.holderContent(cs), false)
			if st != o.cur[0] {
				o.cur[0] = st
				t.events = append(t.events, fmt.Sprintf("%d:%d.%s:%c", op, o.id, holderField, st))
			}
			continue
		}
		for i := range t.lay.fields {
			fi := &t.lay.fields[i]
			isNil, raw, content := t.read(o.ptr, fi)
			st := statusOf(o.base[i], isNil, raw, content, fi.kind == fkScalar)
			if st != o.cur[i] {
				o.cur[i] = st
				t.events = append(t.events, fmt.Sprintf("%d:%d.%s:%c", op, o.id, fi.name, st))
			}
		}
	}
}

func (t *tracker) harm() string {
	if len(t.events) == 0 {
		return "-"
	}
	return strings.Join(t.events, ";")
}

// ---------------------------------------------------------------------------
// conn phase: storage identity as observed

// decl renders `N.<id>.<buf>.<buf>…` for a session object: per reference field the identity
// (1,2,.. in order of first appearance, per field) of its backing array, `n` for nil.
func (t *tracker) decl(kind string, id int, s any) string {
	p := reflect.ValueOf(s).UnsafePointer()
	parts := []string{kind, strconv.Itoa(id)}
	for pos, fidx := range t.lay.refs {
		fi := &t.lay.fields[fidx]
		b := "n"
		if fi.kind != fkScalar {
			h := (*sliceHeader)(unsafe.Add(p, fi.off))
			if h.Data != nil && h.Len > 0 {
				b = strconv.Itoa(t.bufID(pos, h.Data))
			}
		}
		parts = append(parts, b)
	}
	return strings.Join(parts, ".")
}

func (t *tracker) bufID(pos int, data unsafe.Pointer) int {
	m := t.bufIDs[pos]
	if id, ok := m[data]; ok {
		return id
	}
	m[data] = len(m) + 1
	return len(m)
}

// declHolder renders `H.<id>.…` for a connection: it shares storage with the sessions in the
// reference field that carries the peer certificates.
func (t *tracker) declHolder(id int, cs []*smx509.Certificate) string {
	parts := []string{"H", strconv.Itoa(id)}
	for pos, fidx := range t.lay.refs {
		fi := &t.lay.fields[fidx]
		b := "n"
		if fi.name == holderField && fi.kind == fkCerts && len(cs) > 0 {
			b = strconv.Itoa(t.bufID(pos, unsafe.Pointer(unsafe.SliceData(cs))))
		}
		parts = append(parts, b)
	}
	return strings.Join(parts, ".")
}

// ---------------------------------------------------------------------------
// api phase: objects built to the case's storage description

// buffer returns the backing array named `name` of reference field pos (created on first use).
func (t *tracker) buffer(pos int, name string) reflect.Value {
	if v, ok := t.bufs[pos][name]; ok {
		return v
	}
	fi := &t.lay.fields[t.lay.refs[pos]]
	var v reflect.Value
	switch fi.kind {
	case fkBytes:
		b := make([]byte, 48)
		n, _ := strconv.Atoi(name)
		for i := range b {
			b[i] = byte(n)<<1 | 1
		}
		v = reflect.ValueOf(b).Convert(fi.typ)
	case fkCerts:
		v = reflect.ValueOf([]*smx509.Certificate{t.certs[0], t.certs[1]})
	case fkSlice:
		v = reflect.MakeSlice(fi.typ, 2, 2)
	default:
		v = reflect.Zero(fi.typ)
	}
	t.bufs[pos][name] = v
	return v
}

// assemble gives the session object s (a fresh *SessionState) the storage `bufs` (one name per
// reference field, "n" = nil).
func (t *tracker) assemble(s any, bufs []string) {
	p := reflect.ValueOf(s).UnsafePointer()
	for pos, fidx := range t.lay.refs {
		fi := &t.lay.fields[fidx]
		dst := reflect.NewAt(fi.typ, unsafe.Add(p, fi.off)).Elem()
		if pos >= len(bufs) || bufs[pos] == "n" {
			dst.Set(reflect.Zero(fi.typ))
			continue
		}
		dst.Set(t.buffer(pos, bufs[pos]))
	}
}

package main

import (
	"fmt"
	"runtime"
	"strconv"
	"sync"
	"sync/atomic"
	"time"

	"gitee.com/Trisia/gotlcp/dtlcp"
	"gitee.com/Trisia/gotlcp/tlcp"
	"verifharness/internal/hx"
)

// Concurrent phase: several goroutines hammer one small cache with stores, deletes and lookups.
// Every stored session is tagged with the key it is stored under (tag = key index * 1000 + n), so
// the observation "a lookup of key k returned a session that was stored under another key" is
// impossible in ANY sequential order of the calls: it is a linearizability violation that needs
// no history search to recognise. At quiescence the cache must hold at most `cap` entries and its
// list and map must agree. Case: `stack= cap= conc=<writers>x<readers> keys= ms= procs=`;
// observed: `foreign=<count> lenok=<0|1> gets=<n> hits=<n>` — gets/hits only as a note.
type concCache interface {
	put(k string, tag int)
	del(k string)
	get(k string) (tag int, isNil, ok bool)
	lens() (int, int)
}

type tConc struct{ c tlcp.SessionCache }

func (t tConc) put(k string, tag int) { t.c.Put(k, tlcp.VerifNewSessionState(tag)) }
func (t tConc) del(k string)          { t.c.Put(k, nil) }
func (t tConc) get(k string) (int, bool, bool) {
	s, ok := t.c.Get(k)
	if s == nil {
		return 0, true, ok
	}
	return tlcp.VerifSessionTag(s), false, ok
}
func (t tConc) lens() (int, int) { return tlcp.VerifLRULen(t.c) }

type dConc struct{ c dtlcp.SessionCache }

func (t dConc) put(k string, tag int) { t.c.Put(k, dtlcp.VerifNewSessionState(tag)) }
func (t dConc) del(k string)          { t.c.Put(k, nil) }
func (t dConc) get(k string) (int, bool, bool) {
	s, ok := t.c.Get(k)
	if s == nil {
		return 0, true, ok
	}
	return dtlcp.VerifSessionTag(s), false, ok
}
func (t dConc) lens() (int, int) { return dtlcp.VerifLRULen(t.c) }

func executeConc(desc string) string {
	stack, _ := hx.KV(desc, "stack")
	capacity := hx.KVInt(desc, "cap")
	nk := hx.KVInt(desc, "keys")
	ms := hx.KVInt(desc, "ms")
	procs := hx.KVInt(desc, "procs")
	cs, _ := hx.KV(desc, "conc")
	var w, r int
	fmt.Sscanf(cs, "%dx%d", &w, &r)
	if procs > 0 {
		defer runtime.GOMAXPROCS(runtime.GOMAXPROCS(procs))
	}
	var c concCache
	if stack == "dtlcp" {
		c = dConc{dtlcp.NewLRUSessionCache(capacity)}
	} else {
		c = tConc{tlcp.NewLRUSessionCache(capacity)}
	}
	// tags fit the 16-bit identity of the hook: key index * 4000 + n, n < 4000
	var stop atomic.Bool
	var foreign, gets, hits atomic.Int64
	var wg sync.WaitGroup
	for i := 0; i < w; i++ {
		wg.Add(1)
		go func(i int) {
			defer wg.Done()
			rnd := hx.NewRand(uint64(i) + 77)
			n := 0
			for !stop.Load() {
				k := rnd.Intn(nk)
				if rnd.Chance(10) {
					c.del("k" + strconv.Itoa(k))
				} else {
					c.put("k"+strconv.Itoa(k), k*4000+(n%4000))
					n++
				}
			}
		}(i)
	}
	for i := 0; i < r; i++ {
		wg.Add(1)
		go func(i int) {
			defer wg.Done()
			rnd := hx.NewRand(uint64(i) + 9001)
			for !stop.Load() {
				k := rnd.Intn(nk)
				tag, isNil, ok := c.get("k" + strconv.Itoa(k))
				gets.Add(1)
				if ok && !isNil {
					hits.Add(1)
					if tag/4000 != k {
						foreign.Add(1)
					}
				}
				if ok && isNil {
					foreign.Add(1) // (nil, true): never stored by anyone
				}
			}
		}(i)
	}
	time.Sleep(time.Duration(ms) * time.Millisecond)
	stop.Store(true)
	wg.Wait()
	q, m := c.lens()
	eff := capacity
	if eff < 1 {
		eff = 64
	}
	lenok := 0
	if q == m && q <= eff {
		lenok = 1
	}
	return fmt.Sprintf("foreign=%d lenok=%d gets=%d hits=%d", foreign.Load(), lenok, gets.Load(), hits.Load())
}

func concCases(o hx.Opts, emit func(desc, obs string)) {
	dur := 150
	rounds := 2
	if o.Tier == "thorough" {
		dur = 1500
		rounds = 6
	}
	for _, st := range []string{"tlcp", "dtlcp"} {
		for i := 0; i < rounds*o.Scale; i++ {
			cp := []int{1, 2, 3}[i%3]
			procs := []int{4, 16, 2}[i%3]
			d := fmt.Sprintf("stack=%s cap=%d conc=4x6 keys=%d ms=%d procs=%d", st, cp, cp+3, dur, procs)
			emit(d, executeConc(d))
		}
	}
}

module verifharness

go 1.25.0

require (
	gitee.com/Trisia/gotlcp v0.0.0
	github.com/emmansun/gmsm v0.44.0
	golang.org/x/crypto v0.53.0
)

replace gitee.com/Trisia/gotlcp => /repo

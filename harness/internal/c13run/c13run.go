// Package c13run holds the runtime scenarios of property C13 (concurrent use of one
// connection). It is compiled twice: into cmd/c13race with `go build -race` (the observation
// run: race detector + deadlock watchdog + the peer's real stream) and into cmd/c13 (the
// orchestrator, which falls back to running the scenarios in-process without the race
// detector when a -race build is not possible).
//
// One case = one scenario on one fresh pair of real endpoints over the in-memory transports
// of internal/pair. The case description determines everything except the scheduler:
//
//	stack=tlcp|dtlcp|pa scen=write|first|close|read|dgram|switch procs=<GOMAXPROCS> seed=<n>
//	  yield=<percent>   probability of a Gosched/short sleep injected INSIDE the critical
//	                    sections (transport Write = under `out` between the records of one
//	                    Write; transport Read = under `in`) and between API calls
//	  cw=<l.l.l/l.l>    client writers: one group per goroutine, one length per Write call
//	  sw=…              server writers (full duplex)
//	  hs=<n> misc=<n>   extra goroutines per side calling Handshake / ConnectionState, deadline setters
//	  fail=0|1          (first) the handshake fails: wrong server name
//	  closeafter=<k> closers=<n>   (close) n goroutines call Close once k Writes have returned
//	  slen=<n> rbufs=<b.b.b>       (read) one stream of n bytes, one reader goroutine per buffer size
//	  bad=<n>           (dgram) every writer first makes n WriteTo calls to a foreign address (refused early)
//	  scen=silent side=c|s call=hs|read    a Handshake / first Read parked on a peer that never answers, then Close
//	  scen=switch trials=<t> n=<w>         t first uses of a pa connection by 1 Read + w Writes + a ProtectedConn poller
//	  scen=hsclose hs=<n> closeafter=<k>   Close on the client after k yields, racing with the first handshake
//	  scen=pafirst call=read|write how=close|d|r|w k=<n> pend=<-|[PRW]+>
//	                    the adapter's public object (pa.ProtocolSwitchServerConn from Accept): its FIRST call is
//	                    parked — the client has sent only the first k bytes of its first record (k < 5: inside the
//	                    header peek; k >= 5: inside the selected stack) —, further calls (P ProtectedConn, R Read,
//	                    W Write, L LocalAddr + RemoteAddr) are queued behind it, then Close / SetDeadline / SetReadDeadline / SetWriteDeadline
//	                    is called from another goroutine
//
// Payload bytes are a fixed function of (writer, call, index) that the Lean oracle recomputes;
// the peer's stream is reported in hex and judged by the verified checker.
package c13run

import (
	"bytes"
	"errors"
	"fmt"
	"hash/crc32"
	"io"
	"net"
	"os"
	"runtime"
	"sort"
	"strconv"
	"strings"
	"sync"
	"sync/atomic"
	"time"

	"gitee.com/Trisia/gotlcp/dtlcp"
	"gitee.com/Trisia/gotlcp/pa"
	"gitee.com/Trisia/gotlcp/tlcp"
	"verifharness/internal/hx"
	"verifharness/internal/pair"
)

// Payload is mirrored by Gotlcp.Oracle.C13.payload.
func Payload(w, j, n int) []byte {
	b := make([]byte, n)
	base := 1000003*w + 7919*j + 1
	for i := range b {
		b[i] = byte(((uint64(i+base) * 2654435761) / 8192) % 256)
	}
	return b
}

// ---------------------------------------------------------------------------- case description

type spec struct {
	stack, scen         string
	procs               int
	seed                uint64
	yield               int
	cw, sw              [][]int
	hs, misc            int
	fail                bool
	closeAfter, closers int
	slen                int
	rbufs               []int
	side, call          string // silent, stall
	trials, n           int    // switch
	park, slow          int    // whole
	bad                 int    // dgram: WriteTo calls to a foreign address per writer (refused), before the real ones
	how                 string // stall, pafirst
	k                   int    // pafirst: bytes of the client's first record that have arrived
	pend                string // pafirst: calls queued behind the parked one
}

func groups(s string) [][]int {
	if s == "" || s == "-" {
		return nil
	}
	var out [][]int
	for _, g := range strings.Split(s, "/") {
		out = append(out, ints(g))
	}
	return out
}
func ints(s string) []int {
	if s == "" || s == "-" {
		return nil
	}
	var out []int
	for _, x := range strings.Split(s, ".") {
		v, _ := strconv.Atoi(x)
		out = append(out, v)
	}
	return out
}
func showInts(v []int) string {
	if len(v) == 0 {
		return "-"
	}
	ss := make([]string, len(v))
	for i, x := range v {
		ss[i] = strconv.Itoa(x)
	}
	return strings.Join(ss, ".")
}
func showGroups(g [][]int) string {
	if len(g) == 0 {
		return "-"
	}
	ss := make([]string, len(g))
	for i, x := range g {
		ss[i] = showInts(x)
	}
	return strings.Join(ss, "/")
}

func (s spec) String() string {
	b := fmt.Sprintf("stack=%s scen=%s procs=%d seed=%d yield=%d", s.stack, s.scen, s.procs, s.seed, s.yield)
	switch s.scen {
	case "write":
		b += fmt.Sprintf(" cw=%s sw=%s hs=%d misc=%d", showGroups(s.cw), showGroups(s.sw), s.hs, s.misc)
	case "first":
		f := 0
		if s.fail {
			f = 1
		}
		b += fmt.Sprintf(" cw=%s hs=%d misc=%d fail=%d", showGroups(s.cw), s.hs, s.misc, f)
	case "close":
		b += fmt.Sprintf(" cw=%s closeafter=%d closers=%d", showGroups(s.cw), s.closeAfter, s.closers)
	case "hsclose":
		b += fmt.Sprintf(" hs=%d closeafter=%d", s.hs, s.closeAfter)
	case "silent":
		b += fmt.Sprintf(" side=%s call=%s", s.side, s.call)
	case "whole":
		b += fmt.Sprintf(" cw=%s park=%d slow=%d", showGroups(s.cw), s.park, s.slow)
	case "stall":
		b += fmt.Sprintf(" side=%s call=%s how=%s", s.side, s.call, s.how)
	case "wake":
		b += fmt.Sprintf(" side=%s how=%s k=%d park=%d", s.side, s.how, s.k, s.park)
	case "switch":
		b += fmt.Sprintf(" trials=%d n=%d", s.trials, s.n)
	case "pafirst":
		pend := s.pend
		if pend == "" {
			pend = "-"
		}
		b += fmt.Sprintf(" call=%s how=%s k=%d pend=%s", s.call, s.how, s.k, pend)
	case "read":
		b += fmt.Sprintf(" slen=%d rbufs=%s", s.slen, showInts(s.rbufs))
	case "dgram":
		b += fmt.Sprintf(" cw=%s rbufs=%s bad=%d", showGroups(s.cw), showInts(s.rbufs), s.bad)
	}
	return b
}

func parse(desc string) spec {
	var s spec
	s.stack, _ = hx.KV(desc, "stack")
	s.scen, _ = hx.KV(desc, "scen")
	s.procs = hx.KVInt(desc, "procs")
	if v, ok := hx.KV(desc, "seed"); ok {
		s.seed, _ = strconv.ParseUint(v, 10, 64)
	}
	s.yield = hx.KVInt(desc, "yield")
	v, _ := hx.KV(desc, "cw")
	s.cw = groups(v)
	v, _ = hx.KV(desc, "sw")
	s.sw = groups(v)
	s.hs = hx.KVInt(desc, "hs")
	s.misc = hx.KVInt(desc, "misc")
	s.fail = hx.KVInt(desc, "fail") == 1
	s.closeAfter = hx.KVInt(desc, "closeafter")
	s.closers = hx.KVInt(desc, "closers")
	s.slen = hx.KVInt(desc, "slen")
	v, _ = hx.KV(desc, "rbufs")
	s.rbufs = ints(v)
	s.side, _ = hx.KV(desc, "side")
	s.call, _ = hx.KV(desc, "call")
	s.trials = hx.KVInt(desc, "trials")
	s.n = hx.KVInt(desc, "n")
	s.park = hx.KVInt(desc, "park")
	s.slow = hx.KVInt(desc, "slow")
	s.how, _ = hx.KV(desc, "how")
	s.bad = hx.KVInt(desc, "bad")
	s.k = hx.KVInt(desc, "k")
	if v, ok := hx.KV(desc, "pend"); ok && v != "-" {
		s.pend = v
	}
	if s.trials < 1 {
		s.trials = 1
	}
	if s.n < 1 {
		s.n = 1
	}
	if s.procs < 1 {
		s.procs = 1
	}
	return s
}

// ---------------------------------------------------------------------------- helpers

// yielder injects scheduling points; safe for concurrent use.
type yielder struct {
	ctr  atomic.Uint64
	seed uint64
	pct  int
}

func (y *yielder) next() uint64 {
	z := y.ctr.Add(0x9E3779B97F4A7C15) + y.seed*0xBF58476D1CE4E5B9
	z = (z ^ (z >> 30)) * 0xBF58476D1CE4E5B9
	z = (z ^ (z >> 27)) * 0x94D049BB133111EB
	return z ^ (z >> 31)
}
func (y *yielder) maybe() {
	if y.pct <= 0 {
		return
	}
	r := y.next()
	if int(r%100) < y.pct {
		if (r>>8)%8 == 0 {
			time.Sleep(time.Duration(20+(r>>16)%200) * time.Microsecond)
		} else {
			runtime.Gosched()
		}
	}
}

func errTok(err error) string {
	switch {
	case err == nil:
		return "ok"
	case err == net.ErrClosed:
		return "closed"
	case errors.Is(err, net.ErrClosed):
		return "wclosed" // some other error wrapping net.ErrClosed
	case errors.Is(err, io.EOF):
		return "eof"
	case errors.Is(err, io.ErrUnexpectedEOF):
		return "ueof"
	case errors.Is(err, os.ErrDeadlineExceeded):
		return "timeout"
	case errors.Is(err, io.ErrClosedPipe):
		return "pipe"
	}
	var ne net.Error
	if errors.As(err, &ne) && ne.Timeout() {
		return "timeout"
	}
	if strings.Contains(err.Error(), "shutdown") {
		return "shutdown"
	}
	if strings.Contains(err.Error(), "closed") {
		return "closed2"
	}
	return "other"
}

// resTok: result of a Handshake caller; equal errors give equal tokens.
func resTok(err error) string {
	if err == nil {
		return "ok"
	}
	return fmt.Sprintf("err.%08x", crc32.ChecksumIEEE([]byte(err.Error())))
}

func isTimeout(err error) bool {
	var ne net.Error
	return errors.Is(err, os.ErrDeadlineExceeded) || (errors.As(err, &ne) && ne.Timeout())
}

type conn interface {
	Read([]byte) (int, error)
	Write([]byte) (int, error)
	Close() error
	CloseWrite() error
	Handshake() error
	SetDeadline(time.Time) error
	SetReadDeadline(time.Time) error
	SetWriteDeadline(time.Time) error
}

type ends struct {
	c, s           conn
	cstate, sstate func()
	abort          func()
	dc, ds         *dtlcp.Conn // datagram API (dtlcp only)
	caddr, saddr   net.Addr
	cgate, sgate   *ioGate // transport-write gates of the two ends (scenarios whole, stall)
}

// ioGate sits in front of the transport writes of one end. It can
//   - park the FIRST write after armPark() until release() (scenario whole), and delay every
//     later one (a slow link);
//   - stall ALL writes after armStall() — the peer stopped reading, the socket buffers are full —
//     until the write deadline of the transport passes (os.ErrDeadlineExceeded), or the transport
//     is closed (net.ErrClosed). The in-memory transports of internal/pair never block a write
//     and ignore write deadlines, so this is where the net.Conn deadline contract for writes is
//     implemented for the scenarios that need it.
type ioGate struct {
	mu       sync.Mutex
	cond     *sync.Cond
	parkNext bool
	stall    bool
	released bool
	closed   bool
	wdl      time.Time
	slow     time.Duration
	entered  chan struct{} // closed when a write has reached the gate while parked / stalled
	once     sync.Once
}

func newGate() *ioGate {
	g := &ioGate{entered: make(chan struct{})}
	g.cond = sync.NewCond(&g.mu)
	return g
}
func (g *ioGate) armPark(slow time.Duration) {
	g.mu.Lock()
	g.parkNext, g.slow = true, slow
	g.mu.Unlock()
}
func (g *ioGate) armStall() { g.mu.Lock(); g.stall = true; g.mu.Unlock() }
func (g *ioGate) release()  { g.mu.Lock(); g.released = true; g.cond.Broadcast(); g.mu.Unlock() }
func (g *ioGate) close()    { g.mu.Lock(); g.closed = true; g.cond.Broadcast(); g.mu.Unlock() }
func (g *ioGate) setWriteDeadline(t time.Time) {
	g.mu.Lock()
	g.wdl = t
	g.cond.Broadcast()
	g.mu.Unlock()
}

// before is called at the start of every transport write of the end.
func (g *ioGate) before() error {
	g.mu.Lock()
	if g.parkNext {
		g.parkNext = false
		g.once.Do(func() { close(g.entered) })
		for !g.released && !g.closed {
			g.cond.Wait()
		}
	}
	if !g.stall {
		d := g.slow
		g.mu.Unlock()
		if d > 0 {
			time.Sleep(d)
		}
		return nil
	}
	defer g.mu.Unlock()
	g.once.Do(func() { close(g.entered) })
	for {
		if g.closed {
			return net.ErrClosed
		}
		if !g.wdl.IsZero() {
			d := time.Until(g.wdl)
			if d <= 0 {
				return os.ErrDeadlineExceeded
			}
			t := time.AfterFunc(d, func() { g.mu.Lock(); g.cond.Broadcast(); g.mu.Unlock() })
			g.cond.Wait()
			t.Stop()
			continue
		}
		g.cond.Wait()
	}
}

// gatedStream / gatedPacket: an end of internal/pair behind an ioGate.
type gatedStream struct {
	*pair.StreamEnd
	g *ioGate
}

func (s *gatedStream) Write(p []byte) (int, error) {
	if err := s.g.before(); err != nil {
		return 0, err
	}
	return s.StreamEnd.Write(p)
}
func (s *gatedStream) SetWriteDeadline(t time.Time) error { s.g.setWriteDeadline(t); return nil }
func (s *gatedStream) SetDeadline(t time.Time) error {
	s.g.setWriteDeadline(t)
	return s.StreamEnd.SetReadDeadline(t)
}
func (s *gatedStream) Close() error { s.g.close(); return s.StreamEnd.Close() }

type gatedPacket struct {
	*pair.PacketEnd
	g *ioGate
}

func (s *gatedPacket) WriteTo(p []byte, a net.Addr) (int, error) {
	if err := s.g.before(); err != nil {
		return 0, err
	}
	return s.PacketEnd.WriteTo(p, a)
}
func (s *gatedPacket) SetWriteDeadline(t time.Time) error { s.g.setWriteDeadline(t); return nil }
func (s *gatedPacket) SetDeadline(t time.Time) error {
	s.g.setWriteDeadline(t)
	return s.PacketEnd.SetReadDeadline(t)
}
func (s *gatedPacket) Close() error { s.g.close(); return s.PacketEnd.Close() }

// mkPair builds fresh endpoints (no handshake yet); yield hooks sit inside the transports.
func mkPair(sp spec, y *yielder) *ends {
	e := &ends{}
	gated := sp.scen == "whole" || sp.scen == "stall"
	if sp.stack == "dtlcp" {
		ce, se := pair.PacketPipe()
		ce.OnSend = func(_ int, d []byte) [][]byte { y.maybe(); return [][]byte{d} }
		se.OnSend = func(_ int, d []byte) [][]byte { y.maybe(); return [][]byte{d} }
		ccfg, scfg := pair.DClient(), pair.DServer()
		if sp.fail {
			ccfg.ServerName = "wrong.example"
		}
		var cpc, spc net.PacketConn = ce, se
		if gated {
			e.cgate, e.sgate = newGate(), newGate()
			cpc, spc = &gatedPacket{ce, e.cgate}, &gatedPacket{se, e.sgate}
		}
		c := dtlcp.Client(cpc, se.LocalAddr(), ccfg)
		s := dtlcp.Server(spc, ce.LocalAddr(), scfg)
		e.c, e.s, e.dc, e.ds = c, s, c, s
		e.caddr, e.saddr = ce.LocalAddr(), se.LocalAddr()
		e.cstate = func() { _ = c.ConnectionState() }
		e.sstate = func() { _ = s.ConnectionState() }
		e.abort = func() { cpc.Close(); spc.Close() }
		return e
	}
	ce, se := pair.StreamPipe()
	seg := func(avail int) int {
		y.maybe()
		r := y.next()
		if r%10 < 3 && avail > 1 {
			return 1 + int((r>>8)%uint64(avail))
		}
		return avail
	}
	ce.MaxRead, se.MaxRead = seg, seg
	ce.OnWrite = func(d []byte) [][]byte { y.maybe(); return [][]byte{d} }
	se.OnWrite = func(d []byte) [][]byte { y.maybe(); return [][]byte{d} }
	ccfg, scfg := pair.TClient(), pair.TServer()
	if sp.fail {
		ccfg.ServerName = "wrong.example"
	}
	var cnc, snc net.Conn = ce, se
	if gated {
		e.cgate, e.sgate = newGate(), newGate()
		cnc, snc = &gatedStream{ce, e.cgate}, &gatedStream{se, e.sgate}
	}
	c := tlcp.Client(cnc, ccfg)
	s := tlcp.Server(snc, scfg)
	e.c, e.s = c, s
	e.cstate = func() { _ = c.ConnectionState() }
	e.sstate = func() { _ = s.ConnectionState() }
	e.abort = func() { cnc.Close(); snc.Close() }
	return e
}

// group runs goroutines, recovers their panics and can be waited for with a deadline.
type group struct {
	wg     sync.WaitGroup
	mu     sync.Mutex
	panics []string
}

func (g *group) goFn(f func()) {
	g.wg.Add(1)
	go func() {
		defer g.wg.Done()
		if p := hx.Guard(f); p != "" {
			g.mu.Lock()
			g.panics = append(g.panics, p)
			g.mu.Unlock()
		}
	}()
}

// wait returns false when the goroutines did not finish in time.
func (g *group) wait(d time.Duration) bool {
	done := make(chan struct{})
	go func() { g.wg.Wait(); close(done) }()
	select {
	case <-done:
		return true
	case <-time.After(d):
		return false
	}
}

type wres struct {
	w, j, n int
	err     string
}

type obs struct {
	kv    []string
	dead  bool
	panic string
}

func (o *obs) add(k, v string) {
	if v == "" {
		v = "-"
	}
	o.kv = append(o.kv, k+"="+v)
}

func showW(rs []wres) string {
	sort.Slice(rs, func(i, j int) bool {
		if rs[i].w != rs[j].w {
			return rs[i].w < rs[j].w
		}
		return rs[i].j < rs[j].j
	})
	ss := make([]string, len(rs))
	for i, r := range rs {
		ss[i] = fmt.Sprintf("%d.%d.%d.%s", r.w, r.j, r.n, r.err)
	}
	if len(ss) == 0 {
		return "-"
	}
	return strings.Join(ss, ",")
}

const far = 24 * time.Hour

var watchdog = 25 * time.Second

// handshakeBoth completes the handshake of a pair before the scenario proper.
func handshakeBoth(e *ends) bool {
	var g group
	var ce, se error
	g.goFn(func() { ce = e.c.Handshake() })
	g.goFn(func() { se = e.s.Handshake() })
	if !g.wait(watchdog) {
		e.abort()
		return false
	}
	return ce == nil && se == nil && len(g.panics) == 0
}

// writers starts one goroutine per group; results are appended to *out under mu.
func startWriters(g *group, c conn, base int, lens [][]int, y *yielder, start <-chan struct{}, mu *sync.Mutex, out *[]wres, completed *atomic.Int64) {
	for w, ls := range lens {
		w, ls := w, ls
		g.goFn(func() {
			<-start
			for j, l := range ls {
				y.maybe()
				n, err := c.Write(Payload(base+w, j, l))
				mu.Lock()
				*out = append(*out, wres{base + w, j, n, errTok(err)})
				mu.Unlock()
				if completed != nil {
					completed.Add(1)
				}
			}
		})
	}
}

// reader collects the peer's stream until an error; after `kicked` is set a timeout ends it.
func startReader(g *group, c conn, bufSize int, dst *[]byte, last *string) {
	g.goFn(func() {
		buf := make([]byte, bufSize)
		for {
			n, err := c.Read(buf)
			*dst = append(*dst, buf[:n]...)
			if err != nil {
				*last = errTok(err)
				return
			}
		}
	})
}

func startMisc(g *group, n int, c conn, state func(), y *yielder, start <-chan struct{}, stop *atomic.Bool, withHandshake bool) {
	for i := 0; i < n; i++ {
		i := i
		g.goFn(func() {
			<-start
			for k := 0; !stop.Load() && k < 2000; k++ {
				switch (i + k) % 4 {
				case 0:
					state()
				case 1:
					c.SetWriteDeadline(time.Now().Add(far))
				case 2:
					if withHandshake {
						c.Handshake()
					} else {
						state()
					}
				case 3:
					c.SetDeadline(time.Now().Add(far))
				}
				y.maybe()
				runtime.Gosched()
			}
		})
	}
}

// ---------------------------------------------------------------------------- scenarios

func scenWrite(sp spec, y *yielder, o *obs, first bool) {
	e := mkPair(sp, y)
	if !first {
		if !handshakeBoth(e) {
			o.add("setup", "handshake-failed")
			o.dead = true
			return
		}
	}
	start := make(chan struct{})
	var mu sync.Mutex
	var cres, sres []wres
	var wg, mg, rg, hg group
	startWriters(&wg, e.c, 0, sp.cw, y, start, &mu, &cres, nil)
	startWriters(&wg, e.s, 100, sp.sw, y, start, &mu, &sres, nil)
	var stop atomic.Bool
	startMisc(&mg, sp.misc, e.c, e.cstate, y, start, &stop, !first || !sp.fail)
	startMisc(&mg, sp.misc, e.s, e.sstate, y, start, &stop, !first || !sp.fail)
	var cstream, sstream []byte // what the server got from the client, and vice versa
	var cl, sl string
	chs := make([]string, sp.hs)
	shs := make([]string, sp.hs)
	if first {
		for i := 0; i < sp.hs; i++ {
			i := i
			hg.goFn(func() { <-start; y.maybe(); chs[i] = resTok(e.c.Handshake()) })
			hg.goFn(func() { <-start; y.maybe(); shs[i] = resTok(e.s.Handshake()) })
		}
	}
	startReader(&rg, e.s, 4096, &cstream, &cl)
	startReader(&rg, e.c, 1500, &sstream, &sl)
	close(start)
	ok := wg.wait(watchdog) && hg.wait(watchdog)
	stop.Store(true)
	ok = ok && mg.wait(watchdog)
	if ok {
		// everything written is queued at the peer: a read deadline in the past ends the readers
		// once they have drained it
		e.s.SetReadDeadline(time.Now().Add(-time.Second))
		e.c.SetReadDeadline(time.Now().Add(-time.Second))
		ok = rg.wait(watchdog)
	}
	if !ok {
		o.dead = true
		e.abort()
		rg.wait(2 * time.Second)
	}
	mu.Lock()
	o.add("cwres", showW(cres))
	o.add("swres", showW(sres))
	mu.Unlock()
	if first {
		o.add("chs", strings.Join(chs, ","))
		o.add("shs", strings.Join(shs, ","))
	}
	if !o.dead {
		o.add("cstream", hx.Hex(cstream))
		o.add("sstream", hx.Hex(sstream))
	}
	for _, g := range []*group{&wg, &mg, &rg, &hg} {
		if len(g.panics) > 0 {
			o.panic = g.panics[0]
		}
	}
	if !o.dead {
		e.c.Close()
		e.s.Close()
	}
}

func scenClose(sp spec, y *yielder, o *obs) {
	e := mkPair(sp, y)
	if !handshakeBoth(e) {
		o.add("setup", "handshake-failed")
		o.dead = true
		return
	}
	start := make(chan struct{})
	var mu sync.Mutex
	var cres []wres
	var wg, rg, cg, bg group
	var completed atomic.Int64
	startWriters(&wg, e.c, 0, sp.cw, y, start, &mu, &cres, &completed)
	var cstream []byte
	var cl string
	startReader(&rg, e.s, 4096, &cstream, &cl)
	// a reader blocked on the closing side: Close must unblock it
	blocked := "-"
	bg.goFn(func() {
		buf := make([]byte, 16)
		_, err := e.c.Read(buf)
		blocked = errTok(err)
	})
	closeRes := make([]string, sp.closers)
	post := ""
	for i := 0; i < sp.closers; i++ {
		i := i
		cg.goFn(func() {
			<-start
			for completed.Load() < int64(sp.closeAfter) {
				runtime.Gosched()
			}
			y.maybe()
			closeRes[i] = errTok(e.c.Close())
			if i == 0 {
				_, err := e.c.Write([]byte{1})
				post = errTok(err)
			}
		})
	}
	close(start)
	ok := wg.wait(watchdog) && cg.wait(watchdog) && bg.wait(watchdog)
	if ok {
		e.s.SetReadDeadline(time.Now().Add(-time.Second))
		ok = rg.wait(watchdog)
	}
	if !ok {
		o.dead = true
		e.abort()
		rg.wait(2 * time.Second)
	}
	mu.Lock()
	o.add("cwres", showW(cres))
	mu.Unlock()
	sort.Strings(closeRes)
	o.add("close", strings.Join(closeRes, ","))
	o.add("post", post)
	o.add("blocked", blocked)
	if !o.dead {
		o.add("cstream", hx.Hex(cstream))
	}
	for _, g := range []*group{&wg, &rg, &cg, &bg} {
		if len(g.panics) > 0 {
			o.panic = g.panics[0]
		}
	}
	if !o.dead {
		e.s.Close()
	}
}

func scenRead(sp spec, y *yielder, o *obs) {
	e := mkPair(sp, y)
	if !handshakeBoth(e) {
		o.add("setup", "handshake-failed")
		o.dead = true
		return
	}
	start := make(chan struct{})
	var wg, rg group
	data := Payload(9, 0, sp.slen)
	wg.goFn(func() {
		<-start
		for off := 0; off < len(data); {
			n := 1 + int(y.next()%9000)
			if off+n > len(data) {
				n = len(data) - off
			}
			if _, err := e.s.Write(data[off : off+n]); err != nil {
				return
			}
			off += n
			y.maybe()
		}
	})
	var total atomic.Int64
	chunks := make([][][]byte, len(sp.rbufs))
	for i, bs := range sp.rbufs {
		i, bs := i, bs
		rg.goFn(func() {
			<-start
			buf := make([]byte, bs)
			for total.Load() < int64(sp.slen) {
				y.maybe()
				n, err := e.c.Read(buf)
				if n > 0 {
					chunks[i] = append(chunks[i], append([]byte(nil), buf[:n]...))
					if total.Add(int64(n)) >= int64(sp.slen) {
						e.c.SetReadDeadline(time.Now().Add(-time.Second)) // release the other readers
					}
				}
				if err != nil {
					return
				}
			}
		})
	}
	close(start)
	if !(wg.wait(watchdog) && rg.wait(watchdog)) {
		o.dead = true
		e.abort()
		rg.wait(2 * time.Second)
	}
	var all []string
	for _, cs := range chunks {
		for _, c := range cs {
			all = append(all, hx.Hex(c))
		}
	}
	if !o.dead {
		o.add("chunks", strings.Join(all, ","))
	}
	for _, g := range []*group{&wg, &rg} {
		if len(g.panics) > 0 {
			o.panic = g.panics[0]
		}
	}
	if !o.dead {
		e.c.Close()
		e.s.Close()
	}
}

func scenDgram(sp spec, y *yielder, o *obs) {
	e := mkPair(sp, y)
	if !handshakeBoth(e) {
		o.add("setup", "handshake-failed")
		o.dead = true
		return
	}
	start := make(chan struct{})
	var mu sync.Mutex
	var cres []wres
	var bad []string
	var wg, rg group
	for w, ls := range sp.cw {
		w, ls := w, ls
		wg.goFn(func() {
			<-start
			for k := 0; k < sp.bad; k++ {
				// a call that is refused early (not the peer's address): it must leave the
				// connection usable and must not keep Close waiting later on
				_, err := e.dc.WriteTo(Payload(w, 0, 10), e.caddr)
				mu.Lock()
				bad = append(bad, errTok(err))
				mu.Unlock()
			}
			for j, l := range ls {
				y.maybe()
				n, err := e.dc.WriteTo(Payload(w, j, l), e.saddr)
				mu.Lock()
				cres = append(cres, wres{w, j, n, errTok(err)})
				mu.Unlock()
			}
		})
	}
	got := make([][]string, len(sp.rbufs))
	for i, bs := range sp.rbufs {
		i, bs := i, bs
		rg.goFn(func() {
			<-start
			buf := make([]byte, bs)
			for {
				y.maybe()
				n, _, err := e.ds.ReadFrom(buf)
				if err != nil {
					return
				}
				got[i] = append(got[i], hx.Hex(buf[:n]))
			}
		})
	}
	close(start)
	ok := wg.wait(watchdog)
	if ok {
		e.ds.SetReadDeadline(time.Now().Add(-time.Second))
		ok = rg.wait(watchdog)
	}
	if !ok {
		o.dead = true
		e.abort()
		rg.wait(2 * time.Second)
	}
	var all []string
	for _, g := range got {
		all = append(all, g...)
	}
	sort.Strings(all)
	mu.Lock()
	o.add("cwres", showW(cres))
	mu.Unlock()
	if !o.dead {
		o.add("dg", strings.Join(all, ","))
	}
	sort.Strings(bad)
	o.add("bad", strings.Join(bad, ","))
	for _, g := range []*group{&wg, &rg} {
		if len(g.panics) > 0 {
			o.panic = g.panics[0]
		}
	}
	if !o.dead {
		// Close waits for the calls in flight: there are none left, it must return
		var cg group
		cg.goFn(func() { e.c.Close() })
		cg.goFn(func() { e.s.Close() })
		if !cg.wait(5 * time.Second) {
			o.dead = true
			e.abort()
		}
	}
}

// scenWhole: concurrent Writes of large payloads over a slow transport. Writer 0 goes first; its
// first application record is parked inside the transport — writer 0 owns the write half — until
// the other writers have been started and have queued behind it; then the link is released and
// every further transport write takes a little while, so that a writer waiting for the write half
// is handed the mutex whenever the owner lets go of it before its payload is out.
func scenWhole(sp spec, y *yielder, o *obs) {
	e := mkPair(sp, y)
	if !handshakeBoth(e) {
		o.add("setup", "handshake-failed")
		o.dead = true
		return
	}
	var mu sync.Mutex
	var cres []wres
	var wg, rg group
	var cstream []byte
	var cl string
	startReader(&rg, e.s, 16384, &cstream, &cl)
	e.cgate.armPark(time.Duration(sp.slow) * time.Microsecond)
	first, rest := make(chan struct{}), make(chan struct{})
	if len(sp.cw) > 0 {
		startWriters(&wg, e.c, 0, sp.cw[:1], y, first, &mu, &cres, nil)
		for w := 1; w < len(sp.cw); w++ {
			startWriters(&wg, e.c, w, sp.cw[w:w+1], y, rest, &mu, &cres, nil)
		}
	}
	close(first)
	select {
	case <-e.cgate.entered: // writer 0 sits in the transport, inside its Write
	case <-time.After(watchdog):
	}
	close(rest)
	time.Sleep(time.Duration(sp.park) * time.Millisecond) // the others queue up behind it
	e.cgate.release()
	ok := wg.wait(watchdog)
	if ok {
		e.s.SetReadDeadline(time.Now().Add(-time.Second))
		ok = rg.wait(watchdog)
	}
	if !ok {
		o.dead = true
		e.abort()
		wg.wait(2 * time.Second)
		rg.wait(2 * time.Second)
	}
	mu.Lock()
	o.add("cwres", showW(cres))
	mu.Unlock()
	if !o.dead {
		o.add("cstream", hx.Hex(cstream))
	}
	for _, g := range []*group{&wg, &rg} {
		if len(g.panics) > 0 {
			o.panic = g.panics[0]
		}
	}
	if !o.dead {
		e.c.Close()
		e.s.Close()
	}
}

// scenStall: a call parked in the transport — a Write whose peer stopped reading, or a Read on
// a peer that stays silent — and, from another goroutine, the net.Conn way of getting it back:
// a deadline setter with a time that has passed, or Close. The setter / Close must return, and
// the parked call must come back with a timeout (an error, after Close). A setter for the
// OTHER direction (how=r for a Write, how=w for a Read) must return just the same; the parked
// call is then released with the matching setter.
func scenStall(sp spec, y *yielder, o *obs) {
	e := mkPair(sp, y)
	if !handshakeBoth(e) {
		o.add("setup", "handshake-failed")
		o.dead = true
		return
	}
	active, gate := e.c, e.cgate
	if sp.side == "s" {
		active, gate = e.s, e.sgate
	}
	var g, sg group
	callRes, setRes := "-", "-"
	if sp.call == "write" {
		gate.armStall()
		g.goFn(func() {
			_, err := active.Write(Payload(0, 0, 100))
			callRes = errTok(err)
		})
		select {
		case <-gate.entered: // the record is in the transport, which does not take it
		case <-time.After(5 * time.Second):
		}
	} else {
		g.goFn(func() {
			buf := make([]byte, 16)
			_, err := active.Read(buf)
			callRes = errTok(err)
		})
		time.Sleep(3 * time.Millisecond) // let it park in the transport read
	}
	time.Sleep(2 * time.Millisecond)
	sg.goFn(func() {
		y.maybe()
		switch sp.how {
		case "w":
			setRes = errTok(active.SetWriteDeadline(time.Now()))
		case "d":
			setRes = errTok(active.SetDeadline(time.Now()))
		case "r":
			setRes = errTok(active.SetReadDeadline(time.Now()))
		default:
			setRes = errTok(active.Close())
		}
	})
	okS := sg.wait(5 * time.Second)
	if okS {
		// a setter for the other direction leaves the call parked: release it with the matching one
		if sp.call == "write" && sp.how == "r" {
			active.SetWriteDeadline(time.Now())
		}
		if sp.call == "read" && sp.how == "w" {
			active.SetReadDeadline(time.Now())
		}
	}
	okC := okS && g.wait(5*time.Second)
	if !okS || !okC {
		o.dead = true
		e.abort()
		g.wait(2 * time.Second)
		sg.wait(2 * time.Second)
		if !okS {
			setRes = "-"
		} else {
			callRes = "-"
		}
	}
	o.add("call", callRes)
	o.add("set", setRes)
	for _, gr := range []*group{&g, &sg} {
		if len(gr.panics) > 0 {
			o.panic = gr.panics[0]
		}
	}
	// the transport still takes nothing: a graceful Close would wait for its own close_notify
	// deadline (5 s), so the transports are torn down instead
	e.abort()
}

// scenHsClose: Close on the client races with the first handshake (several Handshake callers
// on both sides, a Read on the server).
func scenHsClose(sp spec, y *yielder, o *obs) {
	e := mkPair(sp, y)
	start := make(chan struct{})
	var chg, shg, cg group
	chs := make([]string, sp.hs)
	shs := make([]string, sp.hs)
	for i := 0; i < sp.hs; i++ {
		i := i
		chg.goFn(func() { <-start; y.maybe(); chs[i] = resTok(e.c.Handshake()) })
		shg.goFn(func() { <-start; y.maybe(); shs[i] = resTok(e.s.Handshake()) })
	}
	closeRes := ""
	cg.goFn(func() {
		<-start
		for k := 0; k < sp.closeAfter; k++ {
			runtime.Gosched()
			if k%8 == 7 {
				time.Sleep(20 * time.Microsecond)
			}
		}
		closeRes = errTok(e.c.Close())
	})
	close(start)
	ok := cg.wait(watchdog) && chg.wait(watchdog)
	// the client is gone; a DTLCP server would keep retransmitting for its whole handshake
	// timeout, so its transport is shut down: its callers must then return
	e.abort()
	ok = shg.wait(watchdog) && ok
	if !ok {
		o.dead = true
		chg.wait(2 * time.Second)
	}
	o.add("chs", strings.Join(chs, ","))
	o.add("shs", strings.Join(shs, ","))
	o.add("close", closeRes)
	for _, g := range []*group{&chg, &shg, &cg} {
		if len(g.panics) > 0 {
			o.panic = g.panics[0]
		}
	}
}

// oneShotListener hands out one prepared transport end.
type oneShotListener struct {
	ch chan net.Conn
}

func (l *oneShotListener) Accept() (net.Conn, error) {
	c, ok := <-l.ch
	if !ok {
		return nil, net.ErrClosed
	}
	return c, nil
}
func (l *oneShotListener) Close() error   { return nil }
func (l *oneShotListener) Addr() net.Addr { return &net.TCPAddr{IP: net.IPv4(127, 0, 0, 1), Port: 443} }

// spinBarrier releases n goroutines at (almost) the same instant.
type spinBarrier struct {
	n, arrived int32
}

func (b *spinBarrier) wait() {
	atomic.AddInt32(&b.arrived, 1)
	for atomic.LoadInt32(&b.arrived) < b.n {
		runtime.Gosched()
	}
}

type switchTrial struct {
	res     []string // server reader, server writers…, client write, client read
	wres    []wres
	stream  []byte // what the client received
	echo    bool
	same    bool
	dead    bool
	panicky string
}

func (t *switchTrial) suspect(n int) bool {
	if t.dead || t.panicky != "" || !t.echo || !t.same {
		return true
	}
	for _, r := range t.res {
		if r != "ok" {
			return true
		}
	}
	// cheap screen only (the verdict is the oracle's): n blocks of 64 bytes, each one of the payloads
	if len(t.stream) != 64*n {
		return true
	}
	seen := map[int]bool{}
	for i := 0; i < n; i++ {
		blk := t.stream[64*i : 64*i+64]
		hit := -1
		for w := 0; w < n; w++ {
			if bytes.Equal(blk, Payload(10+w, 0, 64)) {
				hit = w
			}
		}
		if hit < 0 || seen[hit] {
			return true
		}
		seen[hit] = true
	}
	return false
}

// oneSwitchTrial: a TLCP client connects to a pa listener; the server handler makes its FIRST
// calls on the accepted connection from several goroutines released together: one Read, n
// Writes of 64 bytes, one ProtectedConn poller. The connection behind it must be built once.
func oneSwitchTrial(sp spec, y *yielder) *switchTrial {
	t := &switchTrial{}
	ce, se := pair.StreamPipe()
	ce.OnWrite = func(d []byte) [][]byte { y.maybe(); return [][]byte{d} }
	inner := &oneShotListener{ch: make(chan net.Conn, 1)}
	inner.ch <- se
	ln := pa.NewListener(inner, pair.TServer(), nil)
	sc, err := ln.Accept()
	if err != nil {
		t.res = []string{"accept-failed"}
		return t
	}
	psc, _ := sc.(*pa.ProtocolSwitchServerConn)
	c := tlcp.Client(ce, pair.TClient())
	n := sp.n
	bar := &spinBarrier{n: int32(n + 2)}
	var g group
	req := Payload(1, 0, 300)
	var sGot, cGot []byte
	res := make([]string, n+3)
	seenConn := make([]net.Conn, n+2)
	var mu sync.Mutex
	g.goFn(func() { // server reader
		bar.wait()
		buf := make([]byte, 300)
		_, err := io.ReadFull(sc, buf)
		sGot, res[0] = buf, errTok(err)
		if psc != nil {
			seenConn[0] = psc.ProtectedConn()
		}
	})
	for w := 0; w < n; w++ {
		w := w
		g.goFn(func() { // server writers
			bar.wait()
			k, err := sc.Write(Payload(10+w, 0, 64))
			res[1+w] = errTok(err)
			mu.Lock()
			t.wres = append(t.wres, wres{10 + w, 0, k, errTok(err)})
			mu.Unlock()
			if psc != nil {
				seenConn[1+w] = psc.ProtectedConn()
			}
		})
	}
	g.goFn(func() { // ProtectedConn poller: nil until detected, then always the same object
		bar.wait()
		var first net.Conn
		okSame := true
		for i := 0; i < 200 && psc != nil; i++ {
			if pc := psc.ProtectedConn(); pc != nil {
				if first == nil {
					first = pc
				} else if pc != first {
					okSame = false
				}
			}
			runtime.Gosched()
		}
		if !okSame {
			first = nil
		}
		seenConn[n+1] = first
	})
	g.goFn(func() { // client
		_, err := c.Write(req)
		res[n+1] = errTok(err)
		buf := make([]byte, 64*n)
		k, err := io.ReadFull(c, buf)
		cGot, res[n+2] = buf[:k], errTok(err)
	})
	if !g.wait(5 * time.Second) {
		t.dead = true
		ce.Close()
		se.Close()
		g.wait(2 * time.Second)
	}
	t.res = res
	t.stream = cGot
	t.echo = bytes.Equal(sGot, req)
	t.same = true
	var ref net.Conn
	if psc != nil {
		ref = psc.ProtectedConn()
	}
	for i, pc := range seenConn {
		if pc == nil && i == n+1 {
			continue // the poller may have finished before detection
		}
		if pc != ref {
			t.same = false
		}
	}
	if len(g.panics) > 0 {
		t.panicky = g.panics[0]
	}
	if !t.dead {
		c.Close()
		sc.Close()
	}
	return t
}

// scenSwitch runs `trials` such first uses and reports the first suspicious one (else the last).
func scenSwitch(sp spec, y *yielder, o *obs) {
	var t *switchTrial
	ran := 0
	for i := 0; i < sp.trials; i++ {
		t = oneSwitchTrial(sp, y)
		ran++
		if t.suspect(sp.n) {
			break
		}
	}
	o.add("ran", strconv.Itoa(ran))
	o.add("res", strings.Join(t.res, ","))
	o.add("swres", showW(t.wres))
	o.add("sstream", hx.Hex(t.stream))
	b := func(v bool) string {
		if v {
			return "1"
		}
		return "0"
	}
	o.add("echo", b(t.echo))
	o.add("same", b(t.same))
	o.dead = t.dead
	o.panic = t.panicky
}

// scenSilent: a Handshake (or a first Read) is parked on a peer that never answers; Close from
// another goroutine must return and the parked call must fail.
func scenSilent(sp spec, y *yielder, o *obs) {
	e := mkPair(sp, y)
	active := e.c
	if sp.side == "s" {
		active = e.s
	}
	var g, cg group
	callRes, closeRes := "-", "-"
	g.goFn(func() {
		if sp.call == "read" {
			buf := make([]byte, 16)
			_, err := active.Read(buf)
			callRes = errTok(err)
		} else {
			callRes = errTok(active.Handshake())
		}
	})
	time.Sleep(3 * time.Millisecond) // let it park in the transport read
	cg.goFn(func() { closeRes = errTok(active.Close()) })
	okc := cg.wait(5 * time.Second)
	okg := okc && g.wait(5*time.Second)
	if !okc || !okg {
		o.dead = true
		e.abort()
		g.wait(2 * time.Second)
		cg.wait(2 * time.Second)
		if !okc {
			closeRes = "-"
		} else {
			callRes = "-"
		}
	}
	o.add("call", callRes)
	o.add("close", closeRes)
	for _, gr := range []*group{&g, &cg} {
		if len(gr.panics) > 0 {
			o.panic = gr.panics[0]
		}
	}
}

// ---------------------------------------------------------------------------- the adapter's public object

// parkConn is the server's transport end as the adapter sees it; it knows when a goroutine is
// inside a transport Read with nothing left to read (= parked until the peer sends, a read
// deadline passes or the transport is closed).
type parkConn struct {
	*pair.StreamEnd
	mu  sync.Mutex
	in  int // Reads inside the transport
	got int // bytes handed out so far
}

func (c *parkConn) Read(b []byte) (int, error) {
	c.mu.Lock()
	c.in++
	c.mu.Unlock()
	n, err := c.StreamEnd.Read(b)
	c.mu.Lock()
	c.in--
	c.got += n
	c.mu.Unlock()
	return n, err
}

// waitParked: a Read is inside the transport and all k bytes that were sent have been taken.
func (c *parkConn) waitParked(k int, d time.Duration) bool {
	end := time.Now().Add(d)
	for {
		c.mu.Lock()
		ok := c.in > 0 && c.got >= k
		c.mu.Unlock()
		if ok {
			return true
		}
		if time.Now().After(end) {
			return false
		}
		time.Sleep(50 * time.Microsecond)
	}
}

var (
	helloOnce sync.Once
	helloRec  []byte
)

// firstRecord is what a real tlcp client sends first (its ClientHello record), captured once.
func firstRecord() []byte {
	helloOnce.Do(func() {
		ce, se := pair.StreamPipe()
		got := make(chan []byte, 1)
		ce.OnWrite = func(d []byte) [][]byte {
			select {
			case got <- append([]byte(nil), d...):
			default:
			}
			return nil
		}
		c := tlcp.Client(ce, pair.TClient())
		go func() { _ = c.Handshake() }()
		select {
		case helloRec = <-got:
		case <-time.After(5 * time.Second):
		}
		ce.Close()
		se.Close()
	})
	return helloRec
}

// how long Close / a deadline setter of the adapter's object may take (they do no I/O of their own
// while the protocol is undetected or the handshake unfinished)
const paWatch = 3 * time.Second

// scenPaFirst: the object handed out by the adaptive listener's Accept, used like any net.Conn.
// Its first Read (or Write) is parked: the client has connected and sent k bytes of its first
// record, then stays silent. Other calls on the object are queued behind it. Then, from another
// goroutine, the net.Conn way of getting them back: Close, or a deadline setter with a time that
// has passed. That call must return, and every pending call must come back — with an error, none
// can have succeeded. how=w (write deadline, the parked call waits in a read) must return just
// the same; the calls are then released with SetReadDeadline.
func scenPaFirst(sp spec, y *yielder, o *obs) {
	hello := firstRecord()
	if len(hello) < 6 {
		o.add("setup", "no-client-hello")
		return
	}
	k := sp.k
	if k >= len(hello) {
		k = len(hello) - 1
	}
	ce, se := pair.StreamPipe()
	pc := &parkConn{StreamEnd: se}
	inner := &oneShotListener{ch: make(chan net.Conn, 1)}
	inner.ch <- pc
	ln := pa.NewListener(inner, pair.TServer(), nil)
	acc := make(chan net.Conn, 1)
	go func() {
		c, err := ln.Accept()
		if err != nil {
			c = nil
		}
		acc <- c
	}()
	var sc net.Conn
	select {
	case sc = <-acc:
	case <-time.After(paWatch):
		// Accept itself waits for the silent client
		o.dead = true
		o.add("setup", "accept-hung")
		se.Close()
		ce.Close()
		return
	}
	if sc == nil {
		o.add("setup", "accept-failed")
		return
	}
	psc, _ := sc.(*pa.ProtocolSwitchServerConn)
	ce.Inject(hello[:k])
	use := func(kind byte, w int) string {
		switch kind {
		case 'P':
			if psc == nil {
				return "na"
			}
			_ = psc.ProtectedConn()
			return "ok"
		case 'L':
			_, _ = sc.LocalAddr(), sc.RemoteAddr()
			return "ok"
		case 'W':
			_, err := sc.Write(Payload(w, 0, 100))
			return errTok(err)
		default:
			_, err := sc.Read(make([]byte, 64))
			return errTok(err)
		}
	}
	var g, pg, sg group
	callRes, setRes := "-", "-"
	var callDone, setDone atomic.Bool
	g.goFn(func() {
		kind := byte('R')
		if sp.call == "write" {
			kind = 'W'
		}
		callRes = use(kind, 0)
		callDone.Store(true)
	})
	if !pc.waitParked(k, 5*time.Second) {
		o.add("setup", "first-call-not-parked")
		se.Close()
		ce.Close()
		g.wait(2 * time.Second)
		return
	}
	pend := make([]string, len(sp.pend))
	pendDone := make([]atomic.Bool, len(sp.pend))
	for i := range pend {
		i := i
		pend[i] = "-"
		pg.goFn(func() { pend[i] = use(sp.pend[i], 1+i); pendDone[i].Store(true) })
	}
	if len(pend) > 0 { // let them reach the mutex (nothing depends on it)
		for i := 0; i < 20; i++ {
			runtime.Gosched()
		}
		time.Sleep(500 * time.Microsecond)
	}
	sg.goFn(func() {
		y.maybe()
		switch sp.how {
		case "w":
			setRes = errTok(sc.SetWriteDeadline(time.Now()))
		case "d":
			setRes = errTok(sc.SetDeadline(time.Now()))
		case "r":
			setRes = errTok(sc.SetReadDeadline(time.Now()))
		default:
			setRes = errTok(sc.Close())
		}
		setDone.Store(true)
	})
	okS := sg.wait(paWatch)
	if okS && sp.how == "w" {
		sc.SetReadDeadline(time.Now())
	}
	okC := okS && g.wait(paWatch) && pg.wait(paWatch)
	if !okS || !okC {
		o.dead = true
		// which calls were still out when the watchdog fired
		cd, sd := callDone.Load(), setDone.Load()
		pd := make([]bool, len(pend))
		for i := range pd {
			pd[i] = pendDone[i].Load()
		}
		se.Close() // the transport itself: releases whatever waits for the client
		ce.Close()
		g.wait(2 * time.Second)
		pg.wait(2 * time.Second)
		sg.wait(2 * time.Second)
		if !cd {
			callRes = "-"
		}
		if !sd {
			setRes = "-"
		}
		for i := range pd {
			if !pd[i] {
				pend[i] = "-"
			}
		}
	}
	o.add("call", callRes)
	o.add("pend", strings.Join(pend, ","))
	o.add("set", setRes)
	for _, gr := range []*group{&g, &pg, &sg} {
		if len(gr.panics) > 0 {
			o.panic = gr.panics[0]
		}
	}
	se.Close()
	ce.Close()
}

// ---------------------------------------------------------------------------- race log

// RaceEnabled is set by race.go when built with -race.
var RaceEnabled bool

type raceLog struct {
	path string
	off  int64
}

func newRaceLog() *raceLog {
	// GORACE=log_path=<p> makes the runtime write reports to <p>.<pid>
	for _, kv := range strings.Fields(os.Getenv("GORACE")) {
		if strings.HasPrefix(kv, "log_path=") {
			return &raceLog{path: fmt.Sprintf("%s.%d", kv[len("log_path="):], os.Getpid())}
		}
	}
	return &raceLog{}
}

func shortFn(s string) string {
	s = strings.TrimSpace(s)
	if i := strings.LastIndex(s, "/"); i >= 0 {
		s = s[i+1:]
	}
	if i := strings.Index(s, "()"); i >= 0 {
		s = s[:i]
	}
	return strings.NewReplacer(" ", "", "(*", "", ")", "").Replace(s)
}

// take returns the number of new reports and their sites (first frames of both accesses).
func (r *raceLog) take() (int, string) {
	if r.path == "" {
		return 0, "-"
	}
	data, err := os.ReadFile(r.path)
	if err != nil || int64(len(data)) <= r.off {
		return 0, "-"
	}
	txt := string(data[r.off:])
	r.off = int64(len(data))
	n := 0
	set := map[string]bool{}
	lines := strings.Split(txt, "\n")
	for i := 0; i < len(lines); i++ {
		if !strings.Contains(lines[i], "WARNING: DATA RACE") {
			continue
		}
		n++
		var fns []string
		for j := i + 1; j < len(lines) && !strings.HasPrefix(lines[j], "=================="); j++ {
			l := strings.TrimSpace(lines[j])
			if (strings.HasPrefix(l, "Read at") || strings.HasPrefix(l, "Write at") || strings.HasPrefix(l, "Previous read at") ||
				strings.HasPrefix(l, "Previous write at") || strings.HasPrefix(l, "Atomic") || strings.HasPrefix(l, "Previous atomic")) && j+1 < len(lines) {
				fns = append(fns, shortFn(lines[j+1]))
			}
		}
		sort.Strings(fns)
		set[strings.Join(fns, "~")] = true
	}
	var sites []string
	for s := range set {
		sites = append(sites, s)
	}
	sort.Strings(sites)
	if len(sites) == 0 {
		return n, "-"
	}
	return n, strings.Join(sites, "|")
}

// ---------------------------------------------------------------------------- driver

func runCase(desc string, rl *raceLog) string {
	sp := parse(desc)
	prev := runtime.GOMAXPROCS(sp.procs)
	defer runtime.GOMAXPROCS(prev)
	y := &yielder{seed: sp.seed, pct: sp.yield}
	o := &obs{}
	done := make(chan struct{})
	go func() {
		defer close(done)
		if p := hx.Guard(func() {
			switch sp.scen {
			case "write":
				scenWrite(sp, y, o, false)
			case "first":
				scenWrite(sp, y, o, true)
			case "close":
				scenClose(sp, y, o)
			case "read":
				scenRead(sp, y, o)
			case "dgram":
				scenDgram(sp, y, o)
			case "hsclose":
				scenHsClose(sp, y, o)
			case "silent":
				scenSilent(sp, y, o)
			case "whole":
				scenWhole(sp, y, o)
			case "stall":
				scenStall(sp, y, o)
			case "wake":
				scenWake(sp, y, o)
			case "switch":
				scenSwitch(sp, y, o)
			case "pafirst":
				scenPaFirst(sp, y, o)
			default:
				o.add("setup", "unknown-scenario")
			}
		}); p != "" {
			o.panic = p
		}
	}()
	select {
	case <-done:
	case <-time.After(4 * watchdog):
		o = &obs{dead: true}
		o.add("setup", "scenario-hung")
	}
	dead := "0"
	if o.dead {
		dead = "1"
		if os.Getenv("C13_STACKS") != "" {
			buf := make([]byte, 1<<20)
			os.Stderr.Write(buf[:runtime.Stack(buf, true)])
		}
	}
	o.add("dead", dead)
	if o.panic == "" {
		o.panic = "-"
	}
	o.add("panic", o.panic)
	if RaceEnabled {
		// let the runtime flush pending reports of goroutines that just ended
		n, sites := rl.take()
		o.add("races", strconv.Itoa(n))
		o.add("sites", sites)
	} else {
		o.add("races", "na")
		o.add("sites", "-")
	}
	return strings.Join(o.kv, " ")
}

func sizes(r *hx.Rand, n int, big bool) []int {
	out := make([]int, n)
	for i := range out {
		switch k := r.Intn(10); {
		case k < 4:
			out[i] = 1 + r.Intn(200)
		case k < 7:
			out[i] = 500 + r.Intn(3000)
		case k < 9 || !big:
			out[i] = 4000 + r.Intn(9000)
		default:
			out[i] = 16385 + r.Intn(20000) // spans several records
		}
	}
	return out
}

func gen(o hx.Opts) []string {
	r := hx.NewRand(o.Seed)
	var cases []string
	add := func(s spec) { cases = append(cases, s.String()) }
	// witnesses first: first use of the protocol switch conn from several goroutines at once (F20:
	// unlocked read of `wrapped`; and the double-checked detect must build the connection once)
	swTrials := 120
	if o.Tier == "thorough" {
		swTrials = 1500
	}
	for i, pr := range []int{4, 8, 16, 2} {
		add(spec{stack: "pa", scen: "switch", procs: pr, seed: uint64(1 + i), yield: []int{0, 30}[i%2], trials: swTrials * o.Scale, n: 4})
	}
	// a call parked on a silent peer: Close must return and unblock it
	for _, st := range []string{"tlcp", "dtlcp"} {
		for _, side := range []string{"c", "s"} {
			for _, call := range []string{"hs", "read"} {
				add(spec{stack: st, scen: "silent", procs: 4, seed: 9, side: side, call: call})
			}
		}
	}
	// a call parked in the transport (a Write whose peer stopped reading, a Read on a silent peer)
	// and a deadline setter or Close from another goroutine
	for _, st := range []string{"tlcp", "dtlcp"} {
		for _, call := range []string{"write", "read"} {
			for _, how := range []string{"w", "d", "r", "close"} {
				for _, side := range []string{"c", "s"} {
					add(spec{stack: st, scen: "stall", procs: 4, seed: 10, side: side, call: call, how: how})
				}
			}
		}
	}
	// a Read parked in the transport with part of a record taken (inside the header; the header and part of
	// the body in one piece; header and body in two pieces) is woken by a deadline setter from another
	// goroutine, sets a new deadline and reads on: no byte may be lost (wake.go)
	for _, side := range []string{"c", "s"} {
		for i, kp := range [][2]int{{1, 0}, {3, 0}, {4, 2}, {7, 0}, {14, 7}, {60, 5}, {120, 40}, {228, 100}} {
			add(spec{stack: "tlcp", scen: "wake", procs: 4, seed: 10, side: side, how: []string{"r", "d"}[i%2], k: kp[0], park: kp[1]})
		}
	}
	// the adapter's public object: its first Read / Write parked on a client that sent k bytes of
	// its first record (nothing; part of the header; the header; the header and part of the body),
	// then Close or a deadline setter from another goroutine; and the same with further calls of
	// every method of the object queued behind the parked one
	for _, call := range []string{"read", "write"} {
		for _, how := range []string{"close", "d", "r", "w"} {
			for _, k := range []int{0, 3, 5, 40} {
				add(spec{stack: "pa", scen: "pafirst", procs: 4, seed: 15, call: call, how: how, k: k})
			}
		}
		for _, how := range []string{"close", "d"} {
			for i, pend := range []string{"P", "RW", "PWRL"} {
				add(spec{stack: "pa", scen: "pafirst", procs: []int{4, 2, 8}[i], seed: 16, call: call, how: how, k: []int{0, 2, 0}[i], pend: pend})
			}
		}
		add(spec{stack: "pa", scen: "pafirst", procs: 4, seed: 16, call: call, how: "r", k: 5, pend: "RWPL"})
	}
	// payloads of several hundred KiB from concurrent writers over a slow transport: two large
	// ones, a large one against small ones, three writers, more than one Write per writer
	add(spec{stack: "tlcp", scen: "whole", procs: 4, seed: 11, cw: [][]int{{300000}, {300000}}, park: 5, slow: 50})
	add(spec{stack: "tlcp", scen: "whole", procs: 2, seed: 12, yield: 20, cw: [][]int{{250000}, {7, 7, 7, 7, 7, 7}, {16385}}, park: 5, slow: 50})
	add(spec{stack: "tlcp", scen: "whole", procs: 8, seed: 13, cw: [][]int{{70000, 140000}, {524288}, {100}}, park: 3, slow: 20})
	add(spec{stack: "dtlcp", scen: "whole", procs: 4, seed: 14, cw: [][]int{{150000}, {150000}}, park: 5, slow: 10})
	// fixed corner cases: one payload spanning several records against small ones, both stacks
	for _, st := range []string{"tlcp", "dtlcp"} {
		add(spec{stack: st, scen: "write", procs: 4, seed: 3, yield: 50, cw: [][]int{{40000}, {7, 7, 7, 7, 7, 7}, {1, 16384, 16385}}, sw: [][]int{{20000}, {3, 3, 3}}, hs: 0, misc: 1})
		add(spec{stack: st, scen: "first", procs: 4, seed: 4, yield: 30, cw: [][]int{{100, 17000}, {5}}, hs: 3, misc: 1})
		add(spec{stack: st, scen: "first", procs: 2, seed: 5, yield: 30, cw: [][]int{{100}, {5}}, hs: 3, misc: 1, fail: true})
		add(spec{stack: st, scen: "close", procs: 4, seed: 6, yield: 40, cw: [][]int{{30000, 30000, 30000}, {10, 10, 10, 10, 10, 10}}, closeAfter: 2, closers: 2})
		add(spec{stack: st, scen: "read", procs: 4, seed: 7, yield: 40, slen: 30000, rbufs: []int{64, 1000, 4096}})
	}
	add(spec{stack: "dtlcp", scen: "dgram", procs: 4, seed: 8, yield: 40, cw: [][]int{{1, 1200, 30, 30}, {500, 500, 500}, {64}}, rbufs: []int{2048, 2048}})
	// Close racing with the first handshake (F46): sweep the moment of Close across the handshake
	sweeps := 1
	if o.Tier == "thorough" {
		sweeps = 6
	}
	for rep := 0; rep < sweeps*o.Scale; rep++ {
		for _, st := range []string{"tlcp", "dtlcp"} {
			for k := 0; k < 300; k += 4 {
				add(spec{stack: st, scen: "hsclose", procs: []int{4, 2, 8}[rep%3], seed: uint64(rep*1000 + k), yield: []int{0, 20}[rep%2], hs: 2, closeAfter: k})
			}
		}
	}
	rounds := 3
	if o.Tier == "thorough" {
		rounds = 40
	}
	rounds *= o.Scale
	procs := []int{1, 2, 4, 8, 16}
	rp := hx.NewRand(o.Seed ^ 0x5afe13)
	for i := 0; i < rounds; i++ {
		for _, st := range []string{"tlcp", "dtlcp"} {
			nw := 2 + r.Intn(5)
			cw := make([][]int, nw)
			for k := range cw {
				cw[k] = sizes(r, 1+r.Intn(4), true)
			}
			sw := make([][]int, r.Intn(3))
			for k := range sw {
				sw[k] = sizes(r, 1+r.Intn(3), true)
			}
			base := spec{stack: st, procs: hx.Pick(r, procs), seed: r.U64() % 1000000, yield: hx.Pick(r, []int{0, 10, 40, 80})}
			s := base
			s.scen, s.cw, s.sw, s.hs, s.misc = "write", cw, sw, 0, r.Intn(3)
			add(s)
			s = base
			s.scen, s.cw, s.hs, s.misc, s.fail = "first", cw[:1+r.Intn(2)], 1+r.Intn(4), r.Intn(2), r.Intn(4) == 0
			add(s)
			s = base
			nwr := 0
			for _, g := range cw {
				nwr += len(g)
			}
			s.scen, s.cw, s.closeAfter, s.closers = "close", cw, r.Intn(nwr+1), 1+r.Intn(2)
			add(s)
			s = base
			s.scen, s.slen = "read", 5000+r.Intn(40000)
			s.rbufs = make([]int, 2+r.Intn(3))
			for k := range s.rbufs {
				s.rbufs[k] = hx.Pick(r, []int{64, 100, 1000, 5000, 20000})
			}
			add(s)
			if st == "dtlcp" {
				s = base
				s.scen = "dgram"
				s.cw = make([][]int, 2+r.Intn(4))
				for k := range s.cw {
					s.cw[k] = make([]int, 1+r.Intn(6))
					for m := range s.cw[k] {
						s.cw[k][m] = 1 + r.Intn(1200)
					}
				}
				s.rbufs = []int{2048, 2048, 2048}[:1+r.Intn(3)]
				add(s)
			}
		}
		{
			// large concurrent Writes: 2-3 writers, 1-2 Writes each, 66 KiB .. 400 KiB
			st := "tlcp"
			if i%3 == 2 {
				st = "dtlcp"
			}
			cw := make([][]int, 2+r.Intn(2))
			for k := range cw {
				cw[k] = make([]int, 1+r.Intn(2))
				for m := range cw[k] {
					if st == "dtlcp" {
						cw[k][m] = 20000 + r.Intn(120000)
					} else if k > 0 && r.Intn(4) == 0 {
						cw[k][m] = 1 + r.Intn(300) // a small Write that must not land inside a large one
					} else {
						cw[k][m] = 66000 + r.Intn(340000)
					}
				}
			}
			add(spec{stack: st, scen: "whole", procs: hx.Pick(r, procs), seed: r.U64() % 1000000, yield: hx.Pick(r, []int{0, 10, 40}),
				cw: cw, park: 2 + r.Intn(5), slow: hx.Pick(r, []int{0, 20, 50, 100})})
			add(spec{stack: hx.Pick(r, []string{"tlcp", "dtlcp"}), scen: "stall", procs: hx.Pick(r, procs), seed: r.U64() % 1000000,
				yield: hx.Pick(r, []int{0, 40}), side: hx.Pick(r, []string{"c", "s"}), call: hx.Pick(r, []string{"write", "read"}),
				how: hx.Pick(r, []string{"w", "d", "r", "close"})})
		}
		for j := 0; j < 4; j++ { // own generator: the layouts above stay what they were
			pend := ""
			for n := rp.Intn(4); n > 0; n-- {
				pend += hx.Pick(rp, []string{"P", "R", "W", "L"})
			}
			add(spec{stack: "pa", scen: "pafirst", procs: hx.Pick(rp, procs), seed: rp.U64() % 1000000, yield: hx.Pick(rp, []int{0, 40}),
				call: hx.Pick(rp, []string{"read", "write"}), how: hx.Pick(rp, []string{"close", "d", "r", "w"}),
				k: hx.Pick(rp, []int{0, 0, 1, 2, 3, 4, 5, 6, 20, 45}), pend: pend})
		}
		if i%2 == 0 {
			add(spec{stack: "pa", scen: "switch", procs: hx.Pick(r, procs), seed: r.U64() % 1000000, yield: hx.Pick(r, []int{0, 40, 80}), trials: 20, n: 1 + r.Intn(5)})
			add(spec{stack: hx.Pick(r, []string{"tlcp", "dtlcp"}), scen: "silent", procs: hx.Pick(r, procs), seed: r.U64() % 1000000, side: hx.Pick(r, []string{"c", "s"}), call: hx.Pick(r, []string{"hs", "read"})})
		}
	}
	// WriteTo calls that are refused early (foreign address) before the real ones, then Close.
	// These come LAST: dtlcp's Close spins while it waits for the calls in flight, so a Close that
	// waits for ever (an interlock left unbalanced by an error path) cannot be stopped and would
	// slow down every case after it.
	for i, pr := range []int{4, 2, 8} {
		add(spec{stack: "dtlcp", scen: "dgram", procs: pr, seed: uint64(20 + i), yield: []int{0, 40, 10}[i],
			cw: [][]int{{300, 20}, {1200}, {64, 64, 64}}[:2+i%2], rbufs: []int{2048, 2048}[:1+i%2], bad: 1 + i%2})
	}
	return cases
}

// Main runs the cases of a tier (or a replay file) and writes the trace.
func Main(o hx.Opts) {
	if o.Tier == "thorough" {
		watchdog = 60 * time.Second
	}
	var cases []string
	if o.Replay != "" {
		cases = hx.ReplayCases(o.Replay)
	} else {
		cases = gen(o)
	}
	tr := hx.NewTrace(o.Out)
	rl := newRaceLog()
	for _, c := range cases {
		tr.Line(c, runCase(c, rl))
	}
	tr.Close()
}

package c13run

// scen=wake: a Read parked in the transport with PART of a record already taken from it is woken by a
// deadline setter called from another goroutine (SetReadDeadline / SetDeadline with a time in the past:
// the net.Conn way to interrupt a blocked Read); the reader, as it may after a time-out, sets a new
// deadline and reads on while the rest of the record arrives. Every call used is concurrency-safe per
// net.Conn, so no byte may be lost between the interrupted Read and the next one.
//
//	stack=tlcp scen=wake side=c|s how=r|d k=<bytes of the record delivered before the wake-up> park=<size of the first piece, 0 = one piece>
//
// observed: wake=<what the interrupted Read returned> got=ok | short:<n> | bad:<n> | err:<tok>

import (
	"bytes"
	"fmt"
	"sync"
	"time"

	"gitee.com/Trisia/gotlcp/tlcp"
	"verifharness/internal/pair"
)

func scenWake(sp spec, y *yielder, o *obs) {
	ce, se := pair.StreamPipe()
	abort := func() { ce.Close(); se.Close() }
	defer abort()
	c, s := tlcp.Client(ce, pair.TClient()), tlcp.Server(se, pair.TServer())
	var hg group
	var cerr, serr error
	hg.goFn(func() { cerr = c.Handshake() })
	hg.goFn(func() { serr = s.Handshake() })
	if !hg.wait(10*time.Second) || cerr != nil || serr != nil {
		o.add("setup", "handshake-failed")
		o.dead = true
		abort()
		return
	}
	reader, writer, wend := c, s, se
	if sp.side == "s" {
		reader, writer, wend = s, c, ce
	}
	// the writer's record is kept back by its transport and handed over piece by piece
	var mu sync.Mutex
	var rec []byte
	wend.OnWrite = func(d []byte) [][]byte {
		mu.Lock()
		rec = append(rec, d...)
		mu.Unlock()
		return nil
	}
	payload := Payload(0, 0, 200)
	if _, err := writer.Write(payload); err != nil {
		o.add("setup", "write-failed")
		return
	}
	mu.Lock()
	wire := append([]byte(nil), rec...)
	mu.Unlock()
	k := sp.k
	if k < 1 || k >= len(wire) {
		k = len(wire) / 2
	}
	var g group
	var got []byte
	wake, res := "-", "-"
	resumed := make(chan struct{})
	g.goFn(func() {
		timeouts := 0
		for len(got) < len(payload) {
			buf := make([]byte, 64)
			n, err := reader.Read(buf)
			got = append(got, buf[:n]...)
			if err == nil {
				continue
			}
			if isTimeout(err) && timeouts == 0 {
				// woken by the other goroutine: a time-out leaves the connection usable
				timeouts++
				wake = errTok(err)
				reader.SetReadDeadline(time.Now().Add(1500 * time.Millisecond))
				close(resumed)
				continue
			}
			res = "err:" + errTok(err)
			return
		}
	})
	time.Sleep(3 * time.Millisecond) // let it park in the transport read
	if sp.park > 0 && sp.park < k {
		wend.Inject(wire[:sp.park])
		time.Sleep(3 * time.Millisecond)
		wend.Inject(wire[sp.park:k])
	} else {
		wend.Inject(wire[:k])
	}
	time.Sleep(3 * time.Millisecond) // the reader has taken the pieces and waits for more
	var sg group
	sg.goFn(func() {
		y.maybe()
		if sp.how == "d" {
			reader.SetDeadline(time.Now())
		} else {
			reader.SetReadDeadline(time.Now())
		}
	})
	okS := sg.wait(5 * time.Second)
	select {
	case <-resumed:
	case <-time.After(5 * time.Second):
		okS = false
	}
	if okS {
		wend.Inject(wire[k:])
	}
	if !okS || !g.wait(5*time.Second) {
		o.dead = true
		abort()
		g.wait(2 * time.Second)
		sg.wait(2 * time.Second)
	}
	if res == "-" {
		switch {
		case len(got) < len(payload):
			res = fmt.Sprintf("short:%d", len(got))
		case !bytes.Equal(got, payload):
			res = fmt.Sprintf("bad:%d", len(got))
		default:
			res = "ok"
		}
	}
	o.add("wake", wake)
	o.add("got", res)
	for _, gr := range []*group{&g, &sg, &hg} {
		if len(gr.panics) > 0 {
			o.panic = gr.panics[0]
		}
	}
}

//go:build race

package c13run

func init() { RaceEnabled = true }

// Package hx holds what every per-property driver shares: one seeded PRNG (so that any
// disagreement replays exactly), the trace writer of the line protocol, and small helpers.
//
// Line protocol (one case per line):
//
//	<case description tokens>  =>  <observed tokens>
//
// The Lean oracle of the property reads the same line, re-computes what the *model*
// predicts for the case, evaluates the *spec* on the observation and answers with one line
// per case (`agree|DISAGREE ... spec=ok|FAIL:...`).
package hx

import (
	"bufio"
	"encoding/hex"
	"flag"
	"fmt"
	"os"
	"strconv"
	"strings"
	"time"
)

// Rand is a splitmix64 generator: tiny, deterministic, identical on every platform.
type Rand struct{ s uint64 }

func NewRand(seed uint64) *Rand { return &Rand{s: seed*0x9E3779B97F4A7C15 + 0x1234567} }

func (r *Rand) U64() uint64 {
	r.s += 0x9E3779B97F4A7C15
	z := r.s
	z = (z ^ (z >> 30)) * 0xBF58476D1CE4E5B9
	z = (z ^ (z >> 27)) * 0x94D049BB133111EB
	return z ^ (z >> 31)
}
func (r *Rand) Intn(n int) int {
	if n <= 0 {
		return 0
	}
	return int(r.U64() % uint64(n))
}
func (r *Rand) Bool() bool        { return r.U64()&1 == 1 }
func (r *Rand) Chance(p int) bool { return r.Intn(100) < p } // p percent
func (r *Rand) Bytes(n int) []byte {
	b := make([]byte, n)
	for i := range b {
		b[i] = byte(r.U64())
	}
	return b
}
func Pick[T any](r *Rand, xs []T) T { return xs[r.Intn(len(xs))] }

// Hex encodes bytes as lower-case hex, "-" when empty (tokens never vanish).
func Hex(b []byte) string {
	if len(b) == 0 {
		return "-"
	}
	return hex.EncodeToString(b)
}

func UnHex(s string) []byte {
	if s == "-" {
		return nil
	}
	b, err := hex.DecodeString(s)
	if err != nil {
		panic("bad hex " + s)
	}
	return b
}

// Opts are the flags every driver understands.
type Opts struct {
	Tier   string
	Seed   uint64
	Out    string // trace file
	Phase  string // optional sub-phase selector
	Replay string // replay file (a trace whose cases are re-executed instead of generated)
	Scale  int    // budget multiplier (change-directed budget)
}

func ParseOpts() Opts {
	var o Opts
	seed := flag.String("seed", os.Getenv("VERIF_SEED"), "PRNG seed")
	flag.StringVar(&o.Tier, "tier", "quick", "quick|thorough")
	flag.StringVar(&o.Out, "out", "", "trace file to write (default stdout)")
	flag.StringVar(&o.Phase, "phase", "", "sub-phase")
	flag.StringVar(&o.Replay, "replay", "", "re-execute the cases of this trace file")
	flag.IntVar(&o.Scale, "scale", 1, "budget multiplier")
	flag.Parse()
	if *seed == "" {
		o.Seed = 1
	} else if v, err := strconv.ParseUint(*seed, 10, 64); err == nil {
		o.Seed = v
	} else {
		o.Seed = 1
	}
	if o.Scale < 1 {
		o.Scale = 1
	}
	return o
}

// Trace writes `case => observed` lines.
type Trace struct {
	w *bufio.Writer
	f *os.File
	N int

	flushed time.Time
}

func NewTrace(path string) *Trace {
	if path == "" {
		return &Trace{w: bufio.NewWriter(os.Stdout)}
	}
	f, err := os.Create(path)
	if err != nil {
		fmt.Fprintln(os.Stderr, err)
		os.Exit(2)
	}
	return &Trace{w: bufio.NewWriterSize(f, 1<<20), f: f}
}

func (t *Trace) Line(caseDesc, observed string) {
	t.w.WriteString(caseDesc)
	t.w.WriteString(" => ")
	t.w.WriteString(observed)
	t.w.WriteByte('\n')
	t.N++
	// a driver killed by its phase time-out must not lose the lines it produced (the failing witnesses are
	// usually among the slow ones): flush every 64 lines or 200 ms, whichever comes first
	if t.N%64 == 0 || time.Since(t.flushed) > 200*time.Millisecond {
		t.w.Flush()
		t.flushed = time.Now()
	}
}

func (t *Trace) Close() {
	t.w.Flush()
	if t.f != nil {
		t.f.Close()
	}
}

// ReplayCases returns the case descriptions (left of " => ") of a trace / replay file.
func ReplayCases(path string) []string {
	data, err := os.ReadFile(path)
	if err != nil {
		fmt.Fprintln(os.Stderr, err)
		os.Exit(2)
	}
	var out []string
	for _, ln := range strings.Split(string(data), "\n") {
		ln = strings.TrimSpace(ln)
		if ln == "" || strings.HasPrefix(ln, "#") {
			continue
		}
		if i := strings.Index(ln, " => "); i >= 0 {
			ln = ln[:i]
		}
		out = append(out, ln)
	}
	return out
}

// KV finds key=value among the space separated tokens of a case description.
func KV(desc, key string) (string, bool) {
	for _, tok := range strings.Fields(desc) {
		if strings.HasPrefix(tok, key+"=") {
			return tok[len(key)+1:], true
		}
	}
	return "", false
}

func KVInt(desc, key string) int {
	s, ok := KV(desc, key)
	if !ok {
		return 0
	}
	v, _ := strconv.Atoi(s)
	return v
}

// Guard runs f and converts a panic into the returned string (panics are outcomes).
func Guard(f func()) (panicked string) {
	defer func() {
		if r := recover(); r != nil {
			panicked = strings.ReplaceAll(fmt.Sprint(r), " ", "_")
		}
	}()
	f()
	return ""
}

// Package pair provides in-memory transports and ready-made honest endpoint pairs for both
// stacks, so that drivers can run real handshakes without sockets: a buffered byte-stream
// pipe (net.Conn) and a datagram pipe (net.PacketConn), both recordable and scriptable
// (re-segmentation, man-in-the-middle edits, drops, duplication, reordering).
package pair

import (
	"errors"
	"io"
	"net"
	"os"
	"sync"
	"time"
)

type addr string

func (a addr) Network() string { return "mem" }
func (a addr) String() string  { return string(a) }

// link is one direction of a stream pipe.
type link struct {
	mu       sync.Mutex
	cond     *sync.Cond
	buf      []byte
	eof      bool  // writer closed: EOF once drained
	rdClosed bool  // reader closed: writes fail
	err      error // injected transport error returned to the reader once drained
}

func newLink() *link { l := &link{}; l.cond = sync.NewCond(&l.mu); return l }

// StreamEnd is one end of a stream pipe; it implements net.Conn.
type StreamEnd struct {
	in, out       *link
	local, remote addr
	dmu           sync.Mutex
	rdDeadline    time.Time
	closed        bool

	// MaxRead, when set, limits the number of bytes one Read returns (transport
	// segmentation); it is called once per Read with the number of bytes available.
	MaxRead func(avail int) int
	// OnWrite, when set, sees every Write before it is queued and returns the byte chunks
	// to deliver instead (man in the middle; return nil to drop).
	OnWrite func(data []byte) [][]byte
	// Sent records every Write as issued by the endpoint (before OnWrite).
	Sent   [][]byte
	sentMu sync.Mutex
}

// StreamPipe returns the two ends of an in-memory, buffered, full-duplex byte stream.
func StreamPipe() (client, server *StreamEnd) {
	a, b := newLink(), newLink()
	client = &StreamEnd{in: b, out: a, local: "client:1", remote: "server:443"}
	server = &StreamEnd{in: a, out: b, local: "server:443", remote: "client:1"}
	return
}

// SetAddrs overrides the addresses reported by the end.
func (e *StreamEnd) SetAddrs(local, remote string) { e.local, e.remote = addr(local), addr(remote) }

type timeoutErr struct{}

func (timeoutErr) Error() string   { return "i/o timeout" }
func (timeoutErr) Timeout() bool   { return true }
func (timeoutErr) Temporary() bool { return true }

var ErrTimeout net.Error = timeoutErr{}

func (e *StreamEnd) Read(p []byte) (int, error) {
	l := e.in
	l.mu.Lock()
	defer l.mu.Unlock()
	for {
		e.dmu.Lock()
		closed, dl := e.closed, e.rdDeadline
		e.dmu.Unlock()
		if closed {
			return 0, net.ErrClosed
		}
		if len(l.buf) > 0 {
			if len(p) == 0 {
				return 0, nil
			}
			n := len(l.buf)
			if n > len(p) {
				n = len(p)
			}
			if e.MaxRead != nil {
				if m := e.MaxRead(n); m >= 1 && m < n {
					n = m
				}
			}
			copy(p, l.buf[:n])
			l.buf = l.buf[n:]
			return n, nil
		}
		if l.err != nil {
			return 0, l.err
		}
		if l.eof {
			return 0, io.EOF
		}
		if !dl.IsZero() {
			d := time.Until(dl)
			if d <= 0 {
				return 0, os.ErrDeadlineExceeded
			}
			t := time.AfterFunc(d, func() { l.mu.Lock(); l.cond.Broadcast(); l.mu.Unlock() })
			l.cond.Wait()
			t.Stop()
			continue
		}
		l.cond.Wait()
	}
}

func (e *StreamEnd) Write(p []byte) (int, error) {
	e.dmu.Lock()
	closed := e.closed
	e.dmu.Unlock()
	if closed {
		return 0, net.ErrClosed
	}
	cp := append([]byte(nil), p...)
	e.sentMu.Lock()
	e.Sent = append(e.Sent, cp)
	e.sentMu.Unlock()
	chunks := [][]byte{cp}
	if e.OnWrite != nil {
		chunks = e.OnWrite(cp)
	}
	l := e.out
	l.mu.Lock()
	defer l.mu.Unlock()
	if l.rdClosed || l.eof {
		return 0, io.ErrClosedPipe
	}
	for _, c := range chunks {
		l.buf = append(l.buf, c...)
	}
	l.cond.Broadcast()
	return len(p), nil
}

// Inject queues bytes towards the peer of this end as if this end had written them
// (not recorded in Sent, not passed through OnWrite).
func (e *StreamEnd) Inject(p []byte) {
	l := e.out
	l.mu.Lock()
	l.buf = append(l.buf, p...)
	l.cond.Broadcast()
	l.mu.Unlock()
}

// CloseWriteRaw ends this end's outgoing stream at the transport level (peer reads EOF
// after draining) without touching the incoming direction.
func (e *StreamEnd) CloseWriteRaw() {
	l := e.out
	l.mu.Lock()
	l.eof = true
	l.cond.Broadcast()
	l.mu.Unlock()
}

// FailPeerRead makes the peer's Read return err once the queued bytes are drained.
func (e *StreamEnd) FailPeerRead(err error) {
	l := e.out
	l.mu.Lock()
	l.err = err
	l.cond.Broadcast()
	l.mu.Unlock()
}

func (e *StreamEnd) Close() error {
	e.dmu.Lock()
	if e.closed {
		e.dmu.Unlock()
		return nil
	}
	e.closed = true
	e.dmu.Unlock()
	e.out.mu.Lock()
	e.out.eof = true
	e.out.cond.Broadcast()
	e.out.mu.Unlock()
	e.in.mu.Lock()
	e.in.rdClosed = true
	e.in.cond.Broadcast()
	e.in.mu.Unlock()
	return nil
}

func (e *StreamEnd) LocalAddr() net.Addr  { return e.local }
func (e *StreamEnd) RemoteAddr() net.Addr { return e.remote }
func (e *StreamEnd) SetDeadline(t time.Time) error {
	e.SetReadDeadline(t)
	return nil
}
func (e *StreamEnd) SetReadDeadline(t time.Time) error {
	e.dmu.Lock()
	e.rdDeadline = t
	e.dmu.Unlock()
	e.in.mu.Lock()
	e.in.cond.Broadcast()
	e.in.mu.Unlock()
	return nil
}
func (e *StreamEnd) SetWriteDeadline(t time.Time) error { return nil }

// SentBytes returns the concatenation of everything this end wrote.
func (e *StreamEnd) SentBytes() []byte {
	e.sentMu.Lock()
	defer e.sentMu.Unlock()
	var out []byte
	for _, s := range e.Sent {
		out = append(out, s...)
	}
	return out
}

var _ net.Conn = (*StreamEnd)(nil)
var errClosedPacket = errors.New("use of closed network connection")

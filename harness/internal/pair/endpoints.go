package pair

import (
	"fmt"
	"sync"
	"time"

	"gitee.com/Trisia/gotlcp/dtlcp"
	"gitee.com/Trisia/gotlcp/tlcp"
	"verifharness/internal/pki"
)

// TCert / DCert wrap pki leaves as the stacks' Certificate types.
func TCert(l *pki.Leaf) tlcp.Certificate {
	return tlcp.Certificate{Certificate: [][]byte{l.DER}, PrivateKey: l.Key}
}
func DCert(l *pki.Leaf) dtlcp.Certificate {
	return dtlcp.Certificate{Certificate: [][]byte{l.DER}, PrivateKey: l.Key}
}

// honestRTO: the in-memory datagram pipe is lossless, so no honest handshake ever needs a
// retransmission; a short timer would only let a loaded machine trigger one (and with it the
// known retransmission findings F11/K1 of C19). Drivers that study retransmission set their own.
const honestRTO = 5 * time.Second

// TServer / TClient are honest default configurations (verifying client, no client auth).
func TServer() *tlcp.Config {
	s := pki.Std()
	return &tlcp.Config{Certificates: []tlcp.Certificate{TCert(s.SrvSig), TCert(s.SrvEnc)}, Time: pki.NowFn}
}
func TClient() *tlcp.Config {
	s := pki.Std()
	return &tlcp.Config{RootCAs: s.Root.Pool, ServerName: "test.example", Time: pki.NowFn}
}
func DServer() *dtlcp.Config {
	s := pki.Std()
	return &dtlcp.Config{Certificates: []dtlcp.Certificate{DCert(s.SrvSig), DCert(s.SrvEnc)}, Time: pki.NowFn,
		InitialRetransmitTimeout: honestRTO, MaxRetransmitTimeout: 2 * honestRTO}
}
func DClient() *dtlcp.Config {
	s := pki.Std()
	return &dtlcp.Config{RootCAs: s.Root.Pool, ServerName: "test.example", Time: pki.NowFn,
		InitialRetransmitTimeout: honestRTO, MaxRetransmitTimeout: 2 * honestRTO}
}

// Result of running both handshakes concurrently.
type Result struct {
	CErr, SErr error
	TimedOut   bool
}

func errStr(e error) string {
	if e == nil {
		return "ok"
	}
	return e.Error()
}
func (r Result) String() string { return fmt.Sprintf("client=%s server=%s", errStr(r.CErr), errStr(r.SErr)) }
func (r Result) OK() bool       { return r.CErr == nil && r.SErr == nil && !r.TimedOut }

// both runs the two handshake functions concurrently with a watchdog.
func both(c, s func() error, abort func(), timeout time.Duration) Result {
	var r Result
	var wg sync.WaitGroup
	wg.Add(2)
	go func() { defer wg.Done(); r.CErr = c() }()
	go func() { defer wg.Done(); r.SErr = s() }()
	done := make(chan struct{})
	go func() { wg.Wait(); close(done) }()
	select {
	case <-done:
	case <-time.After(timeout):
		r.TimedOut = true
		abort()
		<-done
	}
	return r
}

// TLCP runs a real TLCP handshake between two fresh connections over an in-memory stream.
// prep (optional) may install hooks on the transport ends before the handshake starts.
func TLCP(ccfg, scfg *tlcp.Config, prep func(ce, se *StreamEnd)) (*tlcp.Conn, *tlcp.Conn, *StreamEnd, *StreamEnd, Result) {
	ce, se := StreamPipe()
	if prep != nil {
		prep(ce, se)
	}
	c := tlcp.Client(ce, ccfg)
	s := tlcp.Server(se, scfg)
	r := both(c.Handshake, s.Handshake, func() { ce.Close(); se.Close() }, 20*time.Second)
	return c, s, ce, se, r
}

// DTLCP runs a real DTLCP handshake over an in-memory datagram pipe.
func DTLCP(ccfg, scfg *dtlcp.Config, prep func(ce, se *PacketEnd)) (*dtlcp.Conn, *dtlcp.Conn, *PacketEnd, *PacketEnd, Result) {
	ce, se := PacketPipe()
	if prep != nil {
		prep(ce, se)
	}
	c := dtlcp.Client(ce, se.LocalAddr(), ccfg)
	s := dtlcp.Server(se, ce.LocalAddr(), scfg)
	r := both(c.Handshake, s.Handshake, func() { ce.Close(); se.Close() }, 30*time.Second)
	return c, s, ce, se, r
}

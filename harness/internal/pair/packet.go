package pair

import (
	"net"
	"os"
	"sync"
	"time"
)

// Datagram is one packet in flight.
type Datagram struct {
	Data []byte
	From net.Addr
}

// PacketEnd is one end of an in-memory datagram pipe; it implements net.PacketConn.
type PacketEnd struct {
	mu         sync.Mutex
	cond       *sync.Cond
	queue      []Datagram
	closed     bool
	rdDeadline time.Time
	local      net.Addr
	peer       *PacketEnd

	// OnSend, when set, sees every datagram this end hands to the network (index counts
	// from 0) and returns the datagrams to deliver to the peer instead (drop = nil,
	// duplicate = two copies, …). Reordering/delay can be done with Hold/Release.
	OnSend func(index int, data []byte) [][]byte
	// Sent records every datagram handed to the network by this end, in order.
	Sent  [][]byte
	nSent int
}

// PacketPipe returns two connected datagram ends (client 127.0.0.1:10000, server :20000).
func PacketPipe() (client, server *PacketEnd) {
	client = &PacketEnd{local: &net.UDPAddr{IP: net.IPv4(127, 0, 0, 1), Port: 10000}}
	server = &PacketEnd{local: &net.UDPAddr{IP: net.IPv4(127, 0, 0, 1), Port: 20000}}
	client.cond = sync.NewCond(&client.mu)
	server.cond = sync.NewCond(&server.mu)
	client.peer, server.peer = server, client
	return
}

func (e *PacketEnd) SetLocalAddr(a net.Addr) { e.local = a }

func (e *PacketEnd) ReadFrom(p []byte) (int, net.Addr, error) {
	e.mu.Lock()
	defer e.mu.Unlock()
	for {
		if e.closed {
			return 0, nil, net.ErrClosed
		}
		if len(e.queue) > 0 {
			d := e.queue[0]
			e.queue = e.queue[1:]
			n := copy(p, d.Data)
			return n, d.From, nil
		}
		if !e.rdDeadline.IsZero() {
			d := time.Until(e.rdDeadline)
			if d <= 0 {
				return 0, nil, os.ErrDeadlineExceeded
			}
			t := time.AfterFunc(d, func() { e.mu.Lock(); e.cond.Broadcast(); e.mu.Unlock() })
			e.cond.Wait()
			t.Stop()
			continue
		}
		e.cond.Wait()
	}
}

// Deliver queues a datagram for this end as coming from `from` (injection).
func (e *PacketEnd) Deliver(data []byte, from net.Addr) {
	e.mu.Lock()
	e.queue = append(e.queue, Datagram{Data: append([]byte(nil), data...), From: from})
	e.cond.Broadcast()
	e.mu.Unlock()
}

func (e *PacketEnd) WriteTo(p []byte, _ net.Addr) (int, error) {
	e.mu.Lock()
	if e.closed {
		e.mu.Unlock()
		return 0, net.ErrClosed
	}
	cp := append([]byte(nil), p...)
	idx := e.nSent
	e.nSent++
	e.Sent = append(e.Sent, cp)
	on := e.OnSend
	e.mu.Unlock()
	out := [][]byte{cp}
	if on != nil {
		out = on(idx, cp)
	}
	for _, d := range out {
		e.peer.Deliver(d, e.local)
	}
	return len(p), nil
}

func (e *PacketEnd) Close() error {
	e.mu.Lock()
	e.closed = true
	e.cond.Broadcast()
	e.mu.Unlock()
	return nil
}
func (e *PacketEnd) LocalAddr() net.Addr { return e.local }
func (e *PacketEnd) SetDeadline(t time.Time) error {
	return e.SetReadDeadline(t)
}
func (e *PacketEnd) SetReadDeadline(t time.Time) error {
	e.mu.Lock()
	e.rdDeadline = t
	e.cond.Broadcast()
	e.mu.Unlock()
	return nil
}
func (e *PacketEnd) SetWriteDeadline(t time.Time) error { return nil }

// SentCopy returns a snapshot of the datagrams sent so far.
func (e *PacketEnd) SentCopy() [][]byte {
	e.mu.Lock()
	defer e.mu.Unlock()
	return append([][]byte(nil), e.Sent...)
}

var _ net.PacketConn = (*PacketEnd)(nil)

package resume

import (
	"bytes"
	"fmt"
	"time"

	"gitee.com/Trisia/gotlcp/tlcp"
	"github.com/emmansun/gmsm/smx509"
	"verifharness/internal/hx"
	"verifharness/internal/pair"
	"verifharness/internal/pki"
)

// tlcpHasCCS reports whether a TLCP byte chunk (whole records) contains a ChangeCipherSpec record.
func tlcpHasCCS(data []byte) bool {
	for i := 0; i+5 <= len(data); {
		if data[i] == 20 {
			return true
		}
		i += 5 + (int(data[i+3])<<8 | int(data[i+4]))
	}
	return false
}

func identity(der []byte) string {
	s := pki.Std()
	switch {
	case len(der) == 0:
		return "-"
	case bytes.Equal(der, s.SrvSig.DER):
		return "A"
	case bytes.Equal(der, s.Srv2Sig.DER):
		return "B"
	}
	return "?"
}

func tlcpDstKey(d int) string { return fmt.Sprintf("dst%d:443", d) }

func tlcpHandshake(cn Conn, ccache, scache Cache[*tlcp.SessionState], seed uint64, mid func()) HS {
	dst, server, cs, ss, fault := cn.Dst, cn.Server, cn.CS, cn.SS, cn.Fault
	s := pki.Std()
	rnd := hx.NewRand(seed)
	ccfg := &tlcp.Config{RootCAs: s.Root.Pool, ServerName: "test.example", Time: pki.NowFn, CipherSuites: cs,
		Rand: detReader{hx.NewRand(rnd.U64())}}
	sig, enc := s.SrvSig, s.SrvEnc
	if server == 1 {
		sig, enc = s.Srv2Sig, s.Srv2Enc
	}
	scfg := &tlcp.Config{Certificates: []tlcp.Certificate{pair.TCert(sig), pair.TCert(enc)}, Time: pki.NowFn, CipherSuites: ss,
		Rand: detReader{hx.NewRand(rnd.U64())}}
	if ccache != nil {
		ccfg.SessionCache = ccache
	}
	if scache != nil {
		scfg.SessionCache = scache
	}
	// client authentication: the server's policy, the client's certificate, and the server's two
	// callbacks as observers (they accept everything)
	if l := ClientLeaf(cn.Cert); l != nil {
		ccfg.Certificates = []tlcp.Certificate{pair.TCert(l)}
	}
	scfg.ClientAuth = tlcp.ClientAuthType(cn.Auth)
	scfg.ClientCAs = s.Root.Pool
	vpc, vc := "x", "x"
	scfg.VerifyPeerCertificate = func(raw [][]byte, _ [][]*smx509.Certificate) error {
		vpc = "n"
		if len(raw) > 0 {
			vpc = ClientIdentity(raw[0])
		}
		return nil
	}
	scfg.VerifyConnection = func(st tlcp.ConnectionState) error {
		vc = "n"
		if len(st.PeerCertificates) > 0 {
			vc = ClientIdentity(st.PeerCertificates[0].Raw)
		}
		return nil
	}
	ce, se := pair.StreamPipe()
	func(ce, se *pair.StreamEnd) {
		ce.SetAddrs("client:1", tlcpDstKey(dst))
		damage := func(data []byte) [][]byte {
			if tlcpHasCCS(data) {
				return [][]byte{flipLast(data)}
			}
			return [][]byte{data}
		}
		switch fault {
		case "sf":
			se.OnWrite = damage
		case "cf":
			ce.OnWrite = damage
		}
		if mid != nil {
			first := true
			ce.OnWrite = func(data []byte) [][]byte {
				if first {
					first = false
					mid()
				}
				return [][]byte{data}
			}
		}
	}(ce, se)
	c := tlcp.Client(ce, ccfg)
	sv := tlcp.Server(se, scfg)
	r := runPair(c.Handshake, sv.Handshake, func() { ce.Close(); se.Close() }, 20*time.Second)
	h := HS{CErr: r.CErr, SErr: r.SErr}
	if r.TimedOut {
		h.CErr, h.SErr = pair.ErrTimeout, pair.ErrTimeout
	}
	if cb := ce.SentBytes(); len(cb) > 9 {
		h.Off, _ = helloSessionID(cb[9:])
	}
	if sb := se.SentBytes(); len(sb) > 9 && sb[0] == 22 && sb[5] == 2 {
		h.Ret, h.SawServerHello = helloSessionID(sb[9:])
	}
	cst, sst := c.ConnectionState(), sv.ConnectionState()
	h.CResumed, h.SResumed = cst.DidResume, sst.DidResume
	h.Suite, h.SSuite = cst.CipherSuite, sst.CipherSuite
	if len(cst.PeerCertificates) > 0 {
		h.PeerDER = rawOf(cst.PeerCertificates[0])
	}
	if len(sst.PeerCertificates) > 0 {
		h.SPeerDER = rawOf(sst.PeerCertificates[0])
	}
	h.CPeer = func() []*smx509.Certificate { return c.ConnectionState().PeerCertificates }
	h.SVerified = len(sst.VerifiedChains) > 0
	h.VPC, h.VC = vpc, vc
	cf, sf := tlcp.VerifFinished(c)
	h.Fin = append(cf, sf...)
	ce.SetReadDeadline(time.Now())
	se.SetReadDeadline(time.Now())
	ce.Close()
	se.Close()
	return h
}

// TLCP is the TLCP instance of the per-stack operations.
var TLCP = Ops[*tlcp.SessionState]{
	Name:    "tlcp",
	Version: tlcp.VersionTLCP,
	NewLRU:  func(capacity int) Cache[*tlcp.SessionState] { return tlcp.NewLRUSessionCache(capacity) },
	LRULen:  func(c Cache[*tlcp.SessionState]) (int, int) { return tlcp.VerifLRULen(c) },
	Wiped:   tlcp.VerifSessionWiped,
	Info: func(s *tlcp.SessionState) (id, ms []byte) {
		id, _, _, ms, _ = tlcp.VerifSessionInfo(s)
		return
	},
	Make: func(id []byte, suite uint16, ms []byte) *tlcp.SessionState {
		return tlcp.VerifMakeSession(id, tlcp.VersionTLCP, suite, ms)
	},
	MakePeer: func(id []byte, suite uint16, ms []byte, server int) *tlcp.SessionState {
		return tlcp.VerifMakeSessionWithPeer(id, tlcp.VersionTLCP, suite, ms, ServerCerts(server))
	},
	Clone:     tlcp.VerifCloneSession,
	DstKey:    tlcpDstKey,
	Handshake: tlcpHandshake,
	Identity:  identity,
}

package resume

import (
	"fmt"
	"sync"
	"time"

	"github.com/emmansun/gmsm/smx509"
	"verifharness/internal/pair"
)

// runPair runs the two handshake functions concurrently with a watchdog, like pair's runner,
// but a panic inside Handshake() is an outcome of that side ("handshake panicked: …"), not a
// crash of the driver; the other side is aborted at once.
func runPair(c, s func() error, abort func(), timeout time.Duration) pair.Result {
	var r pair.Result
	var wg sync.WaitGroup
	wg.Add(2)
	guard := func(who string, f func() error, out *error) {
		defer wg.Done()
		defer func() {
			if p := recover(); p != nil {
				*out = fmt.Errorf("%s handshake panicked: %v", who, p)
				abort()
			}
		}()
		*out = f()
	}
	go guard("client", c, &r.CErr)
	go guard("server", s, &r.SErr)
	done := make(chan struct{})
	go func() { wg.Wait(); close(done) }()
	select {
	case <-done:
	case <-time.After(timeout):
		r.TimedOut = true
		abort()
		<-done
	}
	return r
}

// rawOf is cert.Raw, nil-safe: a connection that reports a nil certificate is an observation.
func rawOf(cert *smx509.Certificate) []byte {
	if cert == nil {
		return []byte("nil-certificate")
	}
	return cert.Raw
}

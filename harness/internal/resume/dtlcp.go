package resume

import "gitee.com/Trisia/gotlcp/dtlcp"

// DTLCP is filled in by dtlcp_impl (placeholder until the DTLCP runner is written).
var DTLCP = Ops[*dtlcp.SessionState]{Name: "dtlcp"}

package resume

import (
	"net"
	"time"

	"gitee.com/Trisia/gotlcp/dtlcp"
	"github.com/emmansun/gmsm/smx509"
	"verifharness/internal/hx"
	"verifharness/internal/pair"
	"verifharness/internal/pki"
)

// DTLCPTimeout is the initial retransmission timeout used for DTLCP histories. The in-memory
// network loses nothing and the injected damage is answered at once by an alert, so no case
// depends on a retransmission; the timer is long so that a loaded machine never triggers a
// spurious retransmission (retransmitted flights are C19's subject, findings F11/K1).
var DTLCPTimeout = 6 * time.Second

// dtlcpHasCCS reports whether a datagram (whole DTLCP records, 13-byte headers) contains a
// ChangeCipherSpec record.
func dtlcpHasCCS(data []byte) bool {
	for i := 0; i+13 <= len(data); {
		if data[i] == 20 {
			return true
		}
		i += 13 + (int(data[i+11])<<8 | int(data[i+12]))
	}
	return false
}

// dtlcpHello returns the session id of the last datagram among ds whose first record is a
// handshake record carrying a message of type typ (1 ClientHello, 2 ServerHello).
func dtlcpHello(ds [][]byte, typ byte) ([]byte, bool) {
	var id []byte
	found := false
	for _, d := range ds {
		if len(d) > 25 && d[0] == 22 && d[13] == typ {
			if x, ok := helloSessionID(d[25:]); ok {
				id, found = x, true
			}
		}
	}
	return id, found
}

func dtlcpAddr(d int) *net.UDPAddr { return &net.UDPAddr{IP: net.IPv4(127, 0, 0, 1), Port: 20000 + d} }

func dtlcpHandshake(cn Conn, ccache, scache Cache[*dtlcp.SessionState], seed uint64, mid func()) HS {
	dst, server, cs, ss, fault := cn.Dst, cn.Server, cn.CS, cn.SS, cn.Fault
	s := pki.Std()
	rnd := hx.NewRand(seed)
	ccfg := &dtlcp.Config{RootCAs: s.Root.Pool, ServerName: "test.example", Time: pki.NowFn, CipherSuites: cs,
		Rand: detReader{hx.NewRand(rnd.U64())}, InitialRetransmitTimeout: DTLCPTimeout, MaxRetransmitTimeout: 2 * DTLCPTimeout}
	sig, enc := s.SrvSig, s.SrvEnc
	if server == 1 {
		sig, enc = s.Srv2Sig, s.Srv2Enc
	}
	scfg := &dtlcp.Config{Certificates: []dtlcp.Certificate{pair.DCert(sig), pair.DCert(enc)}, Time: pki.NowFn, CipherSuites: ss,
		Rand: detReader{hx.NewRand(rnd.U64())}, InitialRetransmitTimeout: DTLCPTimeout, MaxRetransmitTimeout: 2 * DTLCPTimeout}
	if ccache != nil {
		ccfg.SessionCache = ccache
	}
	if scache != nil {
		scfg.SessionCache = scache
	}
	// client authentication: the server's policy, the client's certificate, and the server's two
	// callbacks as observers (they accept everything)
	if l := ClientLeaf(cn.Cert); l != nil {
		ccfg.Certificates = []dtlcp.Certificate{pair.DCert(l)}
	}
	scfg.ClientAuth = dtlcp.ClientAuthType(cn.Auth)
	scfg.ClientCAs = s.Root.Pool
	vpc, vc := "x", "x"
	scfg.VerifyPeerCertificate = func(raw [][]byte, _ [][]*smx509.Certificate) error {
		vpc = "n"
		if len(raw) > 0 {
			vpc = ClientIdentity(raw[0])
		}
		return nil
	}
	scfg.VerifyConnection = func(st dtlcp.ConnectionState) error {
		vc = "n"
		if len(st.PeerCertificates) > 0 {
			vc = ClientIdentity(st.PeerCertificates[0].Raw)
		}
		return nil
	}
	ce, se := pair.PacketPipe()
	func(ce, se *pair.PacketEnd) {
		se.SetLocalAddr(dtlcpAddr(dst))
		damage := func(_ int, data []byte) [][]byte {
			if dtlcpHasCCS(data) {
				return [][]byte{flipLast(data)}
			}
			return [][]byte{data}
		}
		switch fault {
		case "sf":
			se.OnSend = damage
		case "cf":
			ce.OnSend = damage
		}
		if mid != nil {
			ce.OnSend = func(i int, data []byte) [][]byte {
				if i == 0 {
					mid()
				}
				return [][]byte{data}
			}
		}
	}(ce, se)
	c := dtlcp.Client(ce, se.LocalAddr(), ccfg)
	sv := dtlcp.Server(se, ce.LocalAddr(), scfg)
	r := runPair(c.Handshake, sv.Handshake, func() { ce.Close(); se.Close() }, 30*time.Second)
	h := HS{CErr: r.CErr, SErr: r.SErr}
	if r.TimedOut {
		h.CErr, h.SErr = pair.ErrTimeout, pair.ErrTimeout
	}
	h.Off, _ = dtlcpHello(ce.SentCopy(), 1)
	h.Ret, h.SawServerHello = dtlcpHello(se.SentCopy(), 2)
	cst, sst := c.ConnectionState(), sv.ConnectionState()
	h.CResumed, h.SResumed = cst.DidResume, sst.DidResume
	h.Suite, h.SSuite = cst.CipherSuite, sst.CipherSuite
	if len(cst.PeerCertificates) > 0 {
		h.PeerDER = rawOf(cst.PeerCertificates[0])
	}
	if len(sst.PeerCertificates) > 0 {
		h.SPeerDER = rawOf(sst.PeerCertificates[0])
	}
	h.CPeer = func() []*smx509.Certificate { return c.ConnectionState().PeerCertificates }
	h.SVerified = len(sst.VerifiedChains) > 0
	h.VPC, h.VC = vpc, vc
	cf, sf := dtlcp.VerifFinished(c)
	h.Fin = append(cf, sf...)
	ce.Close()
	se.Close()
	return h
}

// DTLCP is the DTLCP instance of the per-stack operations.
var DTLCP = Ops[*dtlcp.SessionState]{
	Name:    "dtlcp",
	Version: dtlcp.VersionTLCP,
	NewLRU:  func(capacity int) Cache[*dtlcp.SessionState] { return dtlcp.NewLRUSessionCache(capacity) },
	LRULen:  func(c Cache[*dtlcp.SessionState]) (int, int) { return dtlcp.VerifLRULen(c) },
	Wiped:   dtlcp.VerifSessionWiped,
	Info: func(s *dtlcp.SessionState) (id, ms []byte) {
		id, _, _, ms, _ = dtlcp.VerifSessionInfo(s)
		return
	},
	Make: func(id []byte, suite uint16, ms []byte) *dtlcp.SessionState {
		return dtlcp.VerifMakeSession(id, dtlcp.VersionTLCP, suite, ms)
	},
	MakePeer: func(id []byte, suite uint16, ms []byte, server int) *dtlcp.SessionState {
		return dtlcp.VerifMakeSessionWithPeer(id, dtlcp.VersionTLCP, suite, ms, ServerCerts(server))
	},
	Clone:     dtlcp.VerifCloneSession,
	DstKey:    func(d int) string { return dtlcpAddr(d).String() },
	Handshake: dtlcpHandshake,
	Identity:  identity,
}

// Package resume runs *histories of connections* between one real client configuration and
// two real servers (two identities, each with its own session cache) for the resumption
// checks C10 and C11 (phase conn). The client's cache is the built-in LRU wrapped in a
// recording SessionCache that logs every Put/Get with key and session pointer identity, so
// the Lean oracle can judge the trace.
//
// History syntax (one token, no spaces):
//
//	hist = conn { "," conn }
//	conn = pre "/" "d"<dst> "/" "s"<server> "/" csuites "/" ssuites "/" fault [ "/" auth ]
//	pre  = "-" | act { "+" act }
//	act  = "j"<k>      k Puts of unrelated fresh sessions under fresh keys (evictions)
//	     | "fg"        Put(dst, a forged session whose identifier no server ever issued, carrying the
//	                   (public) certificates of the server this connection reaches)
//	     | "fn"        the same without any recorded certificates
//	     | "fg"<n> | "fn"<n>   the same with an identifier of n bytes, n = 1..32 (session_id is opaque
//	                   SessionID<0..32>: a session another implementation or node issued at that address,
//	                   a truncated or made-up value); "fg" / "fn" = 32 bytes, the length this server issues
//	     | "st"<d>     Put(dst, copy of the session the client holds for destination d, unless wiped) (stale id)
//	     | "sl"        the server's cache is lost (replaced by an empty one)
//	     | "sn"        the server's cache is lost and replaced by an empty FOREIGN SessionCache implementation
//	                   that reports a miss as (nil, true) instead of (nil, false) (the interface does not
//	                   forbid it; hits are (state, true) as usual): a server must treat that answer as a
//	                   miss — full handshake, no panic (finding F65)
//	suites = hex ids joined by "."   (Config.CipherSuites)
//	fault  = "ok" | "sf" (man in the middle damages the server's CCS+Finished flight)
//	              | "cf" (… the client's CCS+Finished flight)
//	              | "e"<k> (no network fault: while the handshake is in flight — after the client
//	                has sent its ClientHello — k unrelated sessions are Put into the client's
//	                cache, as concurrent connections sharing the cache would do; C11 only)
//	auth   = "a"<policy><cert>   policy = 0..5, the server's Config.ClientAuth (NoClientCert,
//	              RequestClientCert, RequireAnyClientCert, VerifyClientCertIfGiven,
//	              RequireAndVerifyClientCert, RequireAndVerifyAnyKeyUsageClientCert; ClientCAs = the
//	              root); cert = "n" (the client has no certificate) | "c" | "d" (the client is
//	              configured with authentication certificate C / D, both issued by the root).
//	              Absent = "a0n".
package resume

import (
	"bytes"
	"fmt"
	"strconv"
	"strings"
	"sync"

	"github.com/emmansun/gmsm/smx509"
	"verifharness/internal/hx"
	"verifharness/internal/pki"
)

// ---------------------------------------------------------------------------
// history descriptions

type Conn struct {
	Pre    []string
	Dst    int
	Server int
	CS, SS []uint16
	Fault  string
	Auth   int    // the server's ClientAuth policy, 0..5
	Cert   string // "n" | "c" | "d": the client's certificate
}

func parseSuites(s string) []uint16 {
	out := []uint16{}
	if s == "-" || s == "" {
		return out
	}
	for _, x := range strings.Split(s, ".") {
		v, err := strconv.ParseUint(x, 16, 16)
		if err != nil {
			panic("bad suite " + x)
		}
		out = append(out, uint16(v))
	}
	return out
}

func showSuites(xs []uint16) string {
	if len(xs) == 0 {
		return "-"
	}
	ss := make([]string, len(xs))
	for i, x := range xs {
		ss[i] = fmt.Sprintf("%04x", x)
	}
	return strings.Join(ss, ".")
}

func ParseHist(s string) []Conn {
	var out []Conn
	for _, cs := range strings.Split(s, ",") {
		f := strings.Split(cs, "/")
		if len(f) != 6 && len(f) != 7 {
			panic("bad connection description " + cs)
		}
		c := Conn{Cert: "n"}
		if len(f) == 7 {
			a := f[6]
			if len(a) != 3 || a[0] != 'a' || a[1] < '0' || a[1] > '5' || !strings.Contains("ncd", a[2:]) {
				panic("bad client-authentication field " + a)
			}
			c.Auth, c.Cert = int(a[1]-'0'), a[2:]
		}
		if f[0] != "-" {
			c.Pre = strings.Split(f[0], "+")
		}
		c.Dst, _ = strconv.Atoi(strings.TrimPrefix(f[1], "d"))
		c.Server, _ = strconv.Atoi(strings.TrimPrefix(f[2], "s"))
		c.CS, c.SS = parseSuites(f[3]), parseSuites(f[4])
		c.Fault = f[5]
		out = append(out, c)
	}
	return out
}

func (c Conn) String() string {
	pre := "-"
	if len(c.Pre) > 0 {
		pre = strings.Join(c.Pre, "+")
	}
	s := fmt.Sprintf("%s/d%d/s%d/%s/%s/%s", pre, c.Dst, c.Server, showSuites(c.CS), showSuites(c.SS), c.Fault)
	if c.Auth != 0 || (c.Cert != "n" && c.Cert != "") {
		cert := c.Cert
		if cert == "" {
			cert = "n"
		}
		s += fmt.Sprintf("/a%d%s", c.Auth, cert)
	}
	return s
}

func ShowHist(h []Conn) string {
	ss := make([]string, len(h))
	for i, c := range h {
		ss[i] = c.String()
	}
	return strings.Join(ss, ",")
}

// ---------------------------------------------------------------------------
// recording cache

// Cache is the method set of both stacks' SessionCache interfaces.
type Cache[S comparable] interface {
	Get(string) (S, bool)
	Put(string, S)
}

// Entry is one recorded cache operation.
type Entry struct {
	Put   bool
	Key   string
	Obj   int // 0 = nil session, otherwise the identity (1,2,..) of the session pointer
	Ok    bool
	Wiped bool // Get: the returned session's master secret was wiped at the time of the call
	ID    []byte
	MS    []byte // copy of the master secret at the time of the call
	Conn  int
	// Decl != "" : not a cache operation but a declaration inserted by an observer (C11: the
	// storage of a session object seen for the first time, of a connection that completed)
	Decl string
}

// missAsNilTrue is a foreign SessionCache implementation: a plain lookup whose second result is always
// true, so a miss is answered (nil, true). Hits and Puts are the inner cache's.
type missAsNilTrue[S comparable] struct{ inner Cache[S] }

func (m missAsNilTrue[S]) Get(k string) (S, bool) { s, _ := m.inner.Get(k); return s, true }
func (m missAsNilTrue[S]) Put(k string, s S)      { m.inner.Put(k, s) }

// Rec wraps a cache and records every operation.
type Rec[S comparable] struct {
	mu    sync.Mutex
	Inner Cache[S]
	Log   []Entry
	objs  map[S]int
	Objs  []S // identity i is Objs[i-1] (keeps the pointers alive: no address re-use)
	wiped func(S) bool
	info  func(S) (id, ms []byte)
	Cur   int // index of the running connection (tag for the entries)
	// observers (optional, C11): OnNew is called when a session pointer is seen for the first
	// time and may return a declaration to be logged before the operation; AfterOp is called
	// after the inner operation with the index of its Log entry. Both run under the lock.
	OnNew   func(id int, s S) string
	AfterOp func(idx int)
}

func NewRec[S comparable](inner Cache[S], wiped func(S) bool, info func(S) (id, ms []byte)) *Rec[S] {
	return &Rec[S]{Inner: inner, objs: map[S]int{}, wiped: wiped, info: info}
}

func (r *Rec[S]) ident(s S) int {
	var zero S
	if s == zero {
		return 0
	}
	if id, ok := r.objs[s]; ok {
		return id
	}
	r.Objs = append(r.Objs, s)
	r.objs[s] = len(r.Objs)
	if r.OnNew != nil {
		if d := r.OnNew(len(r.Objs), s); d != "" {
			r.Log = append(r.Log, Entry{Decl: d, Conn: r.Cur})
		}
	}
	return len(r.Objs)
}

// Note logs a declaration (see Entry.Decl).
func (r *Rec[S]) Note(decl string) {
	r.mu.Lock()
	defer r.mu.Unlock()
	r.Log = append(r.Log, Entry{Decl: decl, Conn: r.Cur})
}

func (r *Rec[S]) Get(k string) (S, bool) {
	r.mu.Lock()
	defer r.mu.Unlock()
	s, ok := r.Inner.Get(k)
	e := Entry{Key: k, Obj: r.ident(s), Ok: ok, Conn: r.Cur}
	if e.Obj != 0 {
		e.Wiped = r.wiped(s)
		id, ms := r.info(s)
		e.ID, e.MS = append([]byte(nil), id...), append([]byte(nil), ms...)
	}
	r.Log = append(r.Log, e)
	if r.AfterOp != nil {
		r.AfterOp(len(r.Log) - 1)
	}
	return s, ok
}

func (r *Rec[S]) Put(k string, s S) {
	r.mu.Lock()
	defer r.mu.Unlock()
	e := Entry{Put: true, Key: k, Obj: r.ident(s), Conn: r.Cur}
	if e.Obj != 0 {
		id, ms := r.info(s)
		e.ID, e.MS = append([]byte(nil), id...), append([]byte(nil), ms...)
	}
	r.Log = append(r.Log, e)
	idx := len(r.Log) - 1
	r.Inner.Put(k, s)
	if r.AfterOp != nil {
		r.AfterOp(idx)
	}
}

// WipedObjs lists the identities of recorded sessions whose master secret is wiped now.
func (r *Rec[S]) WipedObjs() []int {
	r.mu.Lock()
	defer r.mu.Unlock()
	var out []int
	for i, s := range r.Objs {
		if r.wiped(s) {
			out = append(out, i+1)
		}
	}
	return out
}

// ---------------------------------------------------------------------------
// stack abstraction

// HS is what one real handshake pair produced.
type HS struct {
	CErr, SErr         error
	CResumed, SResumed bool
	Off, Ret           []byte // session id in ClientHello / ServerHello as seen on the wire
	SawServerHello     bool
	Suite, SSuite      uint16 // negotiated suite at the client / at the server
	PeerDER            []byte
	Fin                []byte // client verify_data || server verify_data at the client
	// the server's view of its peer
	SPeerDER  []byte // first certificate of the server's ConnectionState().PeerCertificates
	SVerified bool   // the server's ConnectionState().VerifiedChains is non-empty
	VPC, VC   string // what the server's VerifyPeerCertificate / VerifyConnection callbacks saw: "x" = not called, else a client identity
	// CPeer reads the peer certificates the client connection reports NOW (public API); the
	// connection object stays alive as long as the closure does (C11: open connections)
	CPeer func() []*smx509.Certificate
}

// Ops is the per-stack part.
type Ops[S comparable] struct {
	Name    string
	Version uint16
	NewLRU  func(capacity int) Cache[S]
	LRULen  func(c Cache[S]) (int, int)
	Wiped   func(S) bool
	Info    func(S) (id, ms []byte)
	Make    func(id []byte, suite uint16, ms []byte) S
	// MakePeer is Make plus the recorded certificates of server identity `server`.
	MakePeer func(id []byte, suite uint16, ms []byte, server int) S
	Clone    func(S) S
	// Handshake runs one real connection; ccache/scache may be nil (no cache configured);
	// mid (may be nil) is called once, when the client has handed its first flight to the transport.
	// DstKey is the remote-address string of destination d (the client's cache key).
	DstKey    func(d int) string
	Handshake func(c Conn, ccache, scache Cache[S], seed uint64, mid func()) HS
	// Identity maps a peer certificate to "A" (server 0), "B" (server 1) or "?".
	Identity func(der []byte) string
}

// Out is the canonicalised observation of one connection.
type Out struct {
	COk, SOk bool
	CRes     string // "0" | "1" | "-"
	SRes     string
	Off, Ret string // canonical id names
	Len      string
	Suite    string
	Peer     string
	MS       string
	Fresh    string
	Ctl      string
	SView    string // the server's view of its peer: "-" | <id>[v]:<vpc>:<vc>
	Why      string
}

func okStr(b bool) string {
	if b {
		return "ok"
	}
	return "fail"
}

func (o Out) String() string {
	return strings.Join([]string{okStr(o.COk), okStr(o.SOk), o.CRes, o.SRes, o.Off, o.Ret, o.Len, o.Suite, o.Peer, o.MS, o.Fresh, o.Ctl, o.SView}, "/")
}

// Runner executes a history on one stack.
type Runner[S comparable] struct {
	ops    Ops[S]
	CCap   int
	SCap   int
	inner  Cache[S]
	Client *Rec[S]
	srv    [2]Cache[S]
	rnd    *hx.Rand
	ids    map[string]string
	mss    map[string]string
	fins   map[string]bool
	junk   int
	forged int // number of forged identifiers shorter than 32 bytes made so far
	Outs   []Out
	NoCtl  bool // skip the cache-less control handshake
	// OnHS (optional, C11) is called after every real handshake of the history
	OnHS func(i int, h HS)
}

func NewRunner[S comparable](ops Ops[S], ccap, scap int, seed uint64) *Runner[S] {
	r := &Runner[S]{ops: ops, CCap: ccap, SCap: scap, rnd: hx.NewRand(seed),
		ids: map[string]string{}, mss: map[string]string{}, fins: map[string]bool{}}
	r.inner = ops.NewLRU(ccap)
	r.Client = NewRec[S](r.inner, ops.Wiped, ops.Info)
	r.srv[0], r.srv[1] = ops.NewLRU(scap), ops.NewLRU(scap)
	return r
}

func (r *Runner[S]) name(m map[string]string, prefix string, b []byte) string {
	if len(b) == 0 {
		return "-"
	}
	k := string(b)
	if n, ok := m[k]; ok {
		return n
	}
	n := prefix + strconv.Itoa(len(m))
	m[k] = n
	return n
}

func why(e error) string {
	if e == nil {
		return "ok"
	}
	s := e.Error()
	for _, p := range []struct{ sub, tag string }{
		{"handshake panicked", "panic"},
		{"without a master secret", "no-master-secret"},
		{"invalid master secret", "invalid-master-secret"},
		{"bad record MAC", "bad-record-mac"},
		{"bad_record_mac", "bad-record-mac"},
		{"Finished message", "finished-incorrect"},
		{"different cipher suite", "resumed-other-suite"},
		{"different version", "resumed-other-version"},
		{"unconfigured cipher suite", "unconfigured-suite"},
		{"no cipher suite supported", "no-common-suite"},
		{"handshake failure", "alert-handshake-failure"},
		{"handshake_failure", "alert-handshake-failure"},
		{"unexpected message", "unexpected-message"},
		{"unexpected_message", "unexpected-message"},
		{"internal error", "alert-internal-error"},
		{"illegal parameter", "alert-illegal-parameter"},
		{"illegal_parameter", "alert-illegal-parameter"},
		{"timeout", "timeout"},
		{"closed", "closed"},
		{"EOF", "eof"},
	} {
		if strings.Contains(s, p.sub) {
			return p.tag
		}
	}
	return "other"
}

// Step runs the pre-actions and the connection number i.
func (r *Runner[S]) Step(i int, c Conn) Out {
	r.Client.Cur = i
	dst := r.ops.DstKey(c.Dst)
	suite0 := uint16(0xe053)
	if len(c.CS) > 0 {
		suite0 = c.CS[0]
	}
	for _, a := range c.Pre {
		switch {
		case strings.HasPrefix(a, "j"):
			k, _ := strconv.Atoi(a[1:])
			for n := 0; n < k; n++ {
				r.junk++
				r.Client.Put(fmt.Sprintf("junk%d", r.junk), r.ops.Make(r.rnd.Bytes(32), suite0, r.rnd.Bytes(48)))
			}
		case strings.HasPrefix(a, "fg") || strings.HasPrefix(a, "fn"):
			n := 32
			if len(a) > 2 {
				var err error
				if n, err = strconv.Atoi(a[2:]); err != nil || n < 1 || n > 32 {
					panic("bad forged identifier length in pre-action " + a)
				}
			}
			id := r.rnd.Bytes(n)
			if n < 32 {
				// short identifiers of one history must not collide by chance (a 1-byte identifier
				// has 256 values): the high nibble of the first byte counts the forgeries of this runner
				id[0] = byte(r.forged<<4) | id[0]&0x0f
				r.forged++
			}
			if a[1] == 'g' {
				r.Client.Put(dst, r.ops.MakePeer(id, suite0, r.rnd.Bytes(48), c.Server))
			} else {
				r.Client.Put(dst, r.ops.Make(id, suite0, r.rnd.Bytes(48)))
			}
		case strings.HasPrefix(a, "st"):
			d, _ := strconv.Atoi(a[2:])
			var zero S
			// (a session whose master secret is already wiped is not worth copying)
			if s, ok := r.Client.Get(r.ops.DstKey(d)); ok && s != zero && !r.ops.Wiped(s) {
				r.Client.Put(dst, r.ops.Clone(s))
			}
		case a == "sl":
			r.srv[c.Server] = r.ops.NewLRU(r.SCap)
		case a == "sn":
			r.srv[c.Server] = missAsNilTrue[S]{r.ops.NewLRU(r.SCap)}
		default:
			panic("unknown pre-action " + a)
		}
	}
	logStart := len(r.Client.Log)
	var mid func()
	if strings.HasPrefix(c.Fault, "e") {
		k, _ := strconv.Atoi(c.Fault[1:])
		mid = func() {
			for n := 0; n < k; n++ {
				r.junk++
				r.Client.Put(fmt.Sprintf("junk%d", r.junk), r.ops.Make(r.rnd.Bytes(32), suite0, r.rnd.Bytes(48)))
			}
		}
	}
	if c.Cert == "" {
		c.Cert = "n"
	}
	h := r.ops.Handshake(c, r.Client, r.srv[c.Server], r.rnd.U64(), mid)
	if r.OnHS != nil {
		r.OnHS(i, h)
	}
	o := Out{COk: h.CErr == nil, SOk: h.SErr == nil, CRes: "-", SRes: "-", Len: "-", Suite: "-", Peer: "-", MS: "-", Fresh: "-", SView: "-"}
	o.Off = r.name(r.ids, "n", h.Off)
	if h.SawServerHello {
		o.Ret = r.name(r.ids, "n", h.Ret)
		o.Len = strconv.Itoa(len(h.Ret))
	} else {
		o.Ret = "-"
	}
	if o.COk {
		o.CRes = b01(h.CResumed)
		o.Suite = fmt.Sprintf("%04x", h.Suite)
		o.Peer = r.ops.Identity(h.PeerDER)
		// master secret in use: the session the client read from (resumed) or wrote to (new) the cache
		// under the destination key during this connection
		var ms []byte
		for _, e := range r.Client.Log[logStart:] {
			if e.Key == dst && e.Obj != 0 {
				ms = e.MS
			}
		}
		o.MS = r.name(r.mss, "m", ms)
		if r.fins[string(h.Fin)] {
			o.Fresh = "0"
		} else {
			o.Fresh = "1"
		}
		r.fins[string(h.Fin)] = true
	}
	if o.SOk {
		o.SRes = b01(h.SResumed)
		if !o.COk {
			o.Suite = fmt.Sprintf("%04x", h.SSuite)
		}
		v := ""
		if h.SVerified {
			v = "v"
		}
		o.SView = ClientIdentity(h.SPeerDER) + v + ":" + h.VPC + ":" + h.VC
	}
	o.Why = why(h.CErr) + ":" + why(h.SErr)
	if r.NoCtl {
		o.Ctl = "-"
	} else {
		// control: the same two configurations without any session cache
		// (its outcome depends on the configurations only: memoised per process)
		key := fmt.Sprintf("%s/%d/%s/%s/a%d%s", r.ops.Name, c.Server, showSuites(c.CS), showSuites(c.SS), c.Auth, c.Cert)
		ctlMu.Lock()
		res, ok := ctlMemo[key]
		ctlMu.Unlock()
		if !ok {
			cc := c
			cc.Pre, cc.Fault = nil, "ok"
			ctl := r.ops.Handshake(cc, nil, nil, r.rnd.U64(), nil)
			if ctl.CErr == nil && ctl.SErr == nil {
				res = fmt.Sprintf("ok:%04x", ctl.Suite)
			} else {
				res = "fail"
			}
			ctlMu.Lock()
			ctlMemo[key] = res
			ctlMu.Unlock()
		}
		o.Ctl = res
	}
	r.Outs = append(r.Outs, o)
	return o
}

var (
	ctlMu   sync.Mutex
	ctlMemo = map[string]string{}
)

func (r *Runner[S]) Run(h []Conn) {
	for i, c := range h {
		r.Step(i, c)
	}
}

func b01(b bool) string {
	if b {
		return "1"
	}
	return "0"
}

// Observed renders the C10 observation: one token per connection plus the error reasons
// (reasons are informational: the oracle echoes them).
func (r *Runner[S]) Observed() string {
	var sb strings.Builder
	whys := make([]string, len(r.Outs))
	for i, o := range r.Outs {
		fmt.Fprintf(&sb, "c%d=%s ", i, o.String())
		whys[i] = o.Why
	}
	sb.WriteString("why=" + strings.Join(whys, ","))
	return sb.String()
}

// Trace renders the recorded client-cache operations in C11's op syntax
// (`P.<key>.<obj|nil>`, `G.<key>`; keys are renamed k0,k1,.. in order of appearance) together
// with the results in C11's observation syntax.
func (r *Runner[S]) Trace() (ops, outs string) {
	keys := map[string]string{}
	kn := func(k string) string {
		if k == "" {
			return "_"
		}
		if n, ok := keys[k]; ok {
			return n
		}
		n := "k" + strconv.Itoa(len(keys))
		keys[k] = n
		return n
	}
	obj := func(o int) string {
		if o == 0 {
			return "nil"
		}
		return strconv.Itoa(o)
	}
	var a, b []string
	for _, e := range r.Client.Log {
		if e.Decl != "" {
			a = append(a, e.Decl)
			continue
		}
		if e.Put {
			a = append(a, "P."+kn(e.Key)+"."+obj(e.Obj))
			b = append(b, "U")
		} else {
			a = append(a, "G."+kn(e.Key))
			b = append(b, fmt.Sprintf("G.%s.%s.%s", obj(e.Obj), b01(e.Ok), b01(e.Wiped)))
		}
	}
	if len(a) == 0 {
		return "-", "-"
	}
	if len(b) == 0 {
		return strings.Join(a, ","), "-"
	}
	return strings.Join(a, ","), strings.Join(b, ",")
}

// CacheState renders `len=<list>/<map> wiped=<ids>` of the client's built-in cache.
func (r *Runner[S]) CacheState() string {
	q, m := r.ops.LRULen(r.inner)
	w := r.Client.WipedObjs()
	ws := "-"
	if len(w) > 0 {
		ss := make([]string, len(w))
		for i, x := range w {
			ss[i] = strconv.Itoa(x)
		}
		ws = strings.Join(ss, ".")
	}
	return fmt.Sprintf("len=%d/%d wiped=%s", q, m, ws)
}

// HSResults renders `ok`/`fail` per connection (both sides must succeed).
func (r *Runner[S]) HSResults() string {
	ss := make([]string, len(r.Outs))
	for i, o := range r.Outs {
		ss[i] = okStr(o.COk && o.SOk)
		if strings.Contains(o.Why, "panic") {
			ss[i] = "panic"
		}
	}
	if len(ss) == 0 {
		return "-"
	}
	return strings.Join(ss, ",")
}

// ---------------------------------------------------------------------------
// wire helpers shared by the stacks

// ServerCerts returns the DER certificates (signature, encryption) of server identity i.
func ServerCerts(i int) [][]byte {
	s := pki.Std()
	if i == 1 {
		return [][]byte{s.Srv2Sig.DER, s.Srv2Enc.DER}
	}
	return [][]byte{s.SrvSig.DER, s.SrvEnc.DER}
}

// the client certificates: C is the standard catalogue's client signing certificate, D a second
// one issued by the same root (both verify under ClientCAs = the root)
var (
	cliOnce sync.Once
	cliD    *pki.Leaf
)

// ClientLeaf returns the certificate named by a history ("c" | "d"), nil for "n".
func ClientLeaf(name string) *pki.Leaf {
	switch name {
	case "c":
		return pki.Std().CliSig
	case "d":
		cliOnce.Do(func() { cliD = pki.Std().Root.Issue("cli2 sig", true, pki.KeySM2) })
		return cliD
	}
	return nil
}

// ClientIdentity maps a client certificate to "C", "D", "?" or "n" (none).
func ClientIdentity(der []byte) string {
	switch {
	case len(der) == 0:
		return "n"
	case bytes.Equal(der, ClientLeaf("c").DER):
		return "C"
	case bytes.Equal(der, ClientLeaf("d").DER):
		return "D"
	}
	return "?"
}

// helloSessionID extracts the session id of a ClientHello/ServerHello body that starts at
// body (version(2) random(32) sid_len(1) sid).
func helloSessionID(body []byte) ([]byte, bool) {
	if len(body) < 35 {
		return nil, false
	}
	n := int(body[34])
	if len(body) < 35+n {
		return nil, false
	}
	return bytes.Clone(body[35 : 35+n]), true
}

// flipLast returns a copy of data with the last byte inverted.
func flipLast(data []byte) []byte {
	cp := bytes.Clone(data)
	if len(cp) > 0 {
		cp[len(cp)-1] ^= 0xff
	}
	return cp
}

// detReader is a deterministic io.Reader over hx.Rand (one per endpoint: not shared).
type detReader struct{ r *hx.Rand }

func (d detReader) Read(p []byte) (int, error) {
	copy(p, d.r.Bytes(len(p)))
	return len(p), nil
}

// Package script supports drivers that play a scripted peer (tlcp.VerifScript /
// dtlcp.VerifScript) against a real endpoint over the in-memory transports of package pair:
// it tells the driver when the endpoint is *quiescent* — blocked in a transport read with
// nothing left to read, or returned from Handshake — so that the driver can (1) drain what the
// endpoint wrote, (2) decide whether the endpoint has already failed / completed, (3) send the
// next scripted message, all deterministically and without sleeping.
//
// Usage (stream):
//
//	ce, se := pair.StreamPipe()
//	w := script.NewWatch()
//	endpoint := tlcp.Client(w.Endpoint(ce), cfg)          // real endpoint reads through the watch
//	peer := tlcp.NewVerifScript("server", w.Script(se), scfg) // scripted peer writes through it
//	w.Go(endpoint.Handshake)                              // runs Handshake, records the result
//	w.WaitIdle(5*time.Second)                             // endpoint sent its flight and waits
//	peer.ReadAvailable(); peer.Send(...); w.WaitIdle(...); if done, err := w.Done(); done {...}
package script

import (
	"fmt"
	"net"
	"strings"
	"sync"
	"time"
)

// Watch observes one endpoint.
type Watch struct {
	mu       sync.Mutex
	cond     *sync.Cond
	inRead   bool
	consumed int64 // bytes (stream) or datagrams (packet) the endpoint has taken
	offered  int64 // bytes / datagrams written towards the endpoint
	done     bool
	err      error
	panicked string
}

func NewWatch() *Watch { w := &Watch{}; w.cond = sync.NewCond(&w.mu); return w }

// Go runs f (the endpoint's Handshake) in a goroutine and records its result; a panic is
// recorded as an error whose text starts with "panic:".
func (w *Watch) Go(f func() error) {
	go func() {
		var err error
		func() {
			defer func() {
				if r := recover(); r != nil {
					w.mu.Lock()
					w.panicked = strings.ReplaceAll(fmt.Sprint(r), " ", "_")
					w.mu.Unlock()
					err = fmt.Errorf("panic: %v", r)
				}
			}()
			err = f()
		}()
		w.mu.Lock()
		w.done, w.err = true, err
		w.cond.Broadcast()
		w.mu.Unlock()
	}()
}

// Done reports whether the endpoint's Handshake has returned, and with what.
func (w *Watch) Done() (bool, error) {
	w.mu.Lock()
	defer w.mu.Unlock()
	return w.done, w.err
}

// Panicked returns the recovered panic value of the endpoint, "" if none.
func (w *Watch) Panicked() string {
	w.mu.Lock()
	defer w.mu.Unlock()
	return w.panicked
}

// WaitIdle blocks until the endpoint has returned from Handshake, or is blocked reading with
// everything offered so far consumed. It returns false on timeout (endpoint busy / stuck).
func (w *Watch) WaitIdle(timeout time.Duration) bool {
	deadline := time.Now().Add(timeout)
	t := time.AfterFunc(timeout, func() { w.mu.Lock(); w.cond.Broadcast(); w.mu.Unlock() })
	defer t.Stop()
	w.mu.Lock()
	defer w.mu.Unlock()
	for {
		if w.done || (w.inRead && w.consumed >= w.offered) {
			return true
		}
		if !time.Now().Before(deadline) {
			return false
		}
		w.cond.Wait()
	}
}

// WaitDone blocks until Handshake has returned (or the timeout passes).
func (w *Watch) WaitDone(timeout time.Duration) bool {
	deadline := time.Now().Add(timeout)
	t := time.AfterFunc(timeout, func() { w.mu.Lock(); w.cond.Broadcast(); w.mu.Unlock() })
	defer t.Stop()
	w.mu.Lock()
	defer w.mu.Unlock()
	for !w.done {
		if !time.Now().Before(deadline) {
			return false
		}
		w.cond.Wait()
	}
	return true
}

func (w *Watch) enter() { w.mu.Lock(); w.inRead = true; w.cond.Broadcast(); w.mu.Unlock() }
func (w *Watch) leave(n int64) {
	w.mu.Lock()
	w.inRead = false
	w.consumed += n
	w.cond.Broadcast()
	w.mu.Unlock()
}
func (w *Watch) offer(n int64) { w.mu.Lock(); w.offered += n; w.cond.Broadcast(); w.mu.Unlock() }

// ---------------------------------------------------------------------------- stream

type endpointConn struct {
	net.Conn
	w *Watch
}

func (c *endpointConn) Read(p []byte) (int, error) {
	c.w.enter()
	n, err := c.Conn.Read(p)
	c.w.leave(int64(n))
	return n, err
}

type scriptConn struct {
	net.Conn
	w *Watch
}

func (c *scriptConn) Write(p []byte) (int, error) {
	n, err := c.Conn.Write(p)
	c.w.offer(int64(n))
	return n, err
}

// Endpoint wraps the transport end handed to the real endpoint.
func (w *Watch) Endpoint(c net.Conn) net.Conn { return &endpointConn{Conn: c, w: w} }

// Script wraps the transport end handed to the scripted peer.
func (w *Watch) Script(c net.Conn) net.Conn { return &scriptConn{Conn: c, w: w} }

// ---------------------------------------------------------------------------- datagram

type endpointPacket struct {
	net.PacketConn
	w *Watch
}

func (c *endpointPacket) ReadFrom(p []byte) (int, net.Addr, error) {
	c.w.enter()
	n, a, err := c.PacketConn.ReadFrom(p)
	if err == nil {
		c.w.leave(1)
	} else {
		c.w.leave(0)
	}
	return n, a, err
}

type scriptPacket struct {
	net.PacketConn
	w *Watch
}

func (c *scriptPacket) WriteTo(p []byte, a net.Addr) (int, error) {
	n, err := c.PacketConn.WriteTo(p, a)
	if err == nil {
		c.w.offer(1)
	}
	return n, err
}

// EndpointPacket / ScriptPacket are the datagram counterparts (units are datagrams).
func (w *Watch) EndpointPacket(c net.PacketConn) net.PacketConn {
	return &endpointPacket{PacketConn: c, w: w}
}
func (w *Watch) ScriptPacket(c net.PacketConn) net.PacketConn {
	return &scriptPacket{PacketConn: c, w: w}
}

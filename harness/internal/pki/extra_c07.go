package pki

import (
	"sync"

	"github.com/emmansun/gmsm/smx509"
)

// C07Set holds the extra client certificates property C07 needs beyond the standard
// catalogue: pairs whose extended key usage is neither client nor server authentication,
// a pair without any extended key usage extension, and signing certificates with an RSA key
// (a key type the server's certificate processing lets through but no SM2 CertificateVerify
// can be valid under).
type C07Set struct {
	CodeSig, CodeEnc   *Leaf // trusted root, EKU = codeSigning only
	NoEKUSig, NoEKUEnc *Leaf // trusted root, no EKU extension
	CliOnlySig         *Leaf // trusted root, EKU = clientAuth only
	CliOnlyEnc         *Leaf
	RSASig             *Leaf // trusted root, RSA key, signing usage
	RSAOthSig          *Leaf // untrusted root, RSA key, signing usage
}

var (
	c07Once sync.Once
	c07Set  *C07Set
)

func C07() *C07Set {
	c07Once.Do(func() {
		s := Std()
		c07Set = &C07Set{
			CodeSig:    s.Root.Issue("cli code sig", true, KeySM2, EKU(smx509.ExtKeyUsageCodeSigning)),
			CodeEnc:    s.Root.Issue("cli code enc", false, KeySM2, EKU(smx509.ExtKeyUsageCodeSigning)),
			NoEKUSig:   s.Root.Issue("cli noeku sig", true, KeySM2, EKU()),
			NoEKUEnc:   s.Root.Issue("cli noeku enc", false, KeySM2, EKU()),
			CliOnlySig: s.Root.Issue("cli only sig", true, KeySM2, EKU(smx509.ExtKeyUsageClientAuth)),
			CliOnlyEnc: s.Root.Issue("cli only enc", false, KeySM2, EKU(smx509.ExtKeyUsageClientAuth)),
			RSASig:     s.Root.Issue("cli rsa sig", true, KeyRSA),
			RSAOthSig:  s.Other.Issue("cli rsa oth sig", true, KeyRSA),
		}
	})
	return c07Set
}

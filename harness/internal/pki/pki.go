// Package pki builds, at run time, the certificate catalogue the drivers need: a trusted SM2
// CA, an untrusted one, signing/encryption leaf pairs for servers and clients, and the
// impostor variants of property C02/C07 (expired, not yet valid, wrong name, wrong EKU, …).
// Keys are drawn from crypto/rand: nothing depends on their values.
package pki

import (
	"crypto"
	"crypto/ecdsa"
	"crypto/ed25519"
	"crypto/elliptic"
	"crypto/rand"
	"crypto/rsa"
	"crypto/x509/pkix"
	"math/big"
	"net"
	"sync"
	"time"

	"github.com/emmansun/gmsm/sm2"
	"github.com/emmansun/gmsm/smx509"
)

// Now is the reference time every driver passes as Config.Time.
var Now = time.Date(2030, 6, 1, 12, 0, 0, 0, time.UTC)

func NowFn() time.Time { return Now }

// Leaf is one certificate with its private key.
type Leaf struct {
	DER  []byte
	Cert *smx509.Certificate
	Key  crypto.PrivateKey
}

// CA is a self-signed SM2 authority.
type CA struct {
	Leaf
	Pool *smx509.CertPool
}

var serial int64 = 1000
var mu sync.Mutex

func nextSerial() *big.Int {
	mu.Lock()
	defer mu.Unlock()
	serial++
	return big.NewInt(serial)
}

func must[T any](v T, err error) T {
	if err != nil {
		panic(err)
	}
	return v
}

func NewCA(cn string) *CA {
	key := must(sm2.GenerateKey(rand.Reader))
	tpl := &smx509.Certificate{
		SerialNumber:          nextSerial(),
		Subject:               pkix.Name{CommonName: cn, Organization: []string{"verif"}},
		NotBefore:             Now.Add(-24 * 365 * time.Hour),
		NotAfter:              Now.Add(24 * 365 * time.Hour),
		KeyUsage:              smx509.KeyUsageCertSign | smx509.KeyUsageCRLSign,
		BasicConstraintsValid: true,
		IsCA:                  true,
	}
	der := must(smx509.CreateCertificate(rand.Reader, tpl, tpl, &key.PublicKey, key))
	cert := must(smx509.ParseCertificate(der))
	pool := smx509.NewCertPool()
	pool.AddCert(cert)
	return &CA{Leaf: Leaf{DER: der, Cert: cert, Key: key}, Pool: pool}
}

// Opt tweaks a leaf template.
type Opt func(*smx509.Certificate)

func Expired() Opt {
	return func(c *smx509.Certificate) {
		c.NotBefore = Now.Add(-48 * time.Hour)
		c.NotAfter = Now.Add(-24 * time.Hour)
	}
}
func NotYetValid() Opt {
	return func(c *smx509.Certificate) {
		c.NotBefore = Now.Add(24 * time.Hour)
		c.NotAfter = Now.Add(48 * time.Hour)
	}
}
func Names(dns ...string) Opt {
	return func(c *smx509.Certificate) { c.DNSNames = dns; c.IPAddresses = nil }
}
func EKU(usages ...smx509.ExtKeyUsage) Opt {
	return func(c *smx509.Certificate) { c.ExtKeyUsage = usages }
}
func Usage(u smx509.KeyUsage) Opt {
	return func(c *smx509.Certificate) { c.KeyUsage = u }
}

// Kind of key of a leaf.
const (
	KeySM2 = iota
	KeyP256
	KeyRSA
	KeyEd25519
)

func genKey(kind int) (crypto.PrivateKey, crypto.PublicKey) {
	switch kind {
	case KeyP256:
		k := must(ecdsa.GenerateKey(elliptic.P256(), rand.Reader))
		return k, &k.PublicKey
	case KeyRSA:
		k := must(rsa.GenerateKey(rand.Reader, 2048))
		return k, &k.PublicKey
	case KeyEd25519:
		pub, k := must2(ed25519.GenerateKey(rand.Reader))
		return k, pub
	default:
		k := must(sm2.GenerateKey(rand.Reader))
		return k, &k.PublicKey
	}
}

func must2[A, B any](a A, b B, err error) (A, B) {
	if err != nil {
		panic(err)
	}
	return a, b
}

// Issue creates a leaf signed by ca. sign=true gives a signing certificate (digital
// signature usage), false an encryption certificate (key encipherment / agreement).
func (ca *CA) Issue(cn string, sign bool, keyKind int, opts ...Opt) *Leaf {
	key, pub := genKey(keyKind)
	ku := smx509.KeyUsageDigitalSignature
	if !sign {
		ku = smx509.KeyUsageKeyEncipherment | smx509.KeyUsageDataEncipherment | smx509.KeyUsageKeyAgreement
	}
	tpl := &smx509.Certificate{
		SerialNumber: nextSerial(),
		Subject:      pkix.Name{CommonName: cn, Organization: []string{"verif"}},
		NotBefore:    Now.Add(-24 * 30 * time.Hour),
		NotAfter:     Now.Add(24 * 30 * time.Hour),
		KeyUsage:     ku,
		ExtKeyUsage:  []smx509.ExtKeyUsage{smx509.ExtKeyUsageServerAuth, smx509.ExtKeyUsageClientAuth},
		DNSNames:     []string{"localhost", "test.example"},
		IPAddresses:  []net.IP{net.IPv4(127, 0, 0, 1)},
	}
	for _, o := range opts {
		o(tpl)
	}
	der := must(smx509.CreateCertificate(rand.Reader, tpl, ca.Cert, pub, ca.Key))
	return &Leaf{DER: der, Cert: must(smx509.ParseCertificate(der)), Key: key}
}

// Set is the standard catalogue, built once per process.
type Set struct {
	Root, Other          *CA   // trusted root, untrusted root
	SrvSig, SrvEnc       *Leaf // honest server pair (names: localhost, test.example, 127.0.0.1)
	CliSig, CliEnc       *Leaf // honest client pair
	Srv2Sig, Srv2Enc     *Leaf // a second honest server identity under the same root
	OtherSig, OtherEnc   *Leaf // pair under the untrusted root
	ExpSig, ExpEnc       *Leaf // expired pair (trusted root)
	FutSig, FutEnc       *Leaf // not yet valid pair
	NameSig, NameEnc     *Leaf // valid only for "other.example"
	CliExpSig, CliExpEnc *Leaf // expired client pair
	CliEKUSig, CliEKUEnc *Leaf // client pair with server-auth-only extended key usage
	CliOthSig, CliOthEnc *Leaf // client pair under the untrusted root
	RSAEnc, P256Sig      *Leaf // foreign key types (trusted root)
	P256Enc, EdSig       *Leaf
}

var (
	once sync.Once
	std  *Set
)

func Std() *Set {
	once.Do(func() {
		s := &Set{Root: NewCA("verif root"), Other: NewCA("verif other root")}
		s.SrvSig, s.SrvEnc = s.Root.Issue("srv sig", true, KeySM2), s.Root.Issue("srv enc", false, KeySM2)
		s.Srv2Sig, s.Srv2Enc = s.Root.Issue("srv2 sig", true, KeySM2), s.Root.Issue("srv2 enc", false, KeySM2)
		s.CliSig, s.CliEnc = s.Root.Issue("cli sig", true, KeySM2), s.Root.Issue("cli enc", false, KeySM2)
		s.OtherSig, s.OtherEnc = s.Other.Issue("oth sig", true, KeySM2), s.Other.Issue("oth enc", false, KeySM2)
		s.ExpSig, s.ExpEnc = s.Root.Issue("exp sig", true, KeySM2, Expired()), s.Root.Issue("exp enc", false, KeySM2, Expired())
		s.FutSig, s.FutEnc = s.Root.Issue("fut sig", true, KeySM2, NotYetValid()), s.Root.Issue("fut enc", false, KeySM2, NotYetValid())
		s.NameSig, s.NameEnc = s.Root.Issue("name sig", true, KeySM2, Names("other.example")), s.Root.Issue("name enc", false, KeySM2, Names("other.example"))
		s.CliExpSig, s.CliExpEnc = s.Root.Issue("cli exp sig", true, KeySM2, Expired()), s.Root.Issue("cli exp enc", false, KeySM2, Expired())
		s.CliEKUSig = s.Root.Issue("cli eku sig", true, KeySM2, EKU(smx509.ExtKeyUsageServerAuth))
		s.CliEKUEnc = s.Root.Issue("cli eku enc", false, KeySM2, EKU(smx509.ExtKeyUsageServerAuth))
		s.CliOthSig, s.CliOthEnc = s.Other.Issue("cli oth sig", true, KeySM2), s.Other.Issue("cli oth enc", false, KeySM2)
		s.RSAEnc = s.Root.Issue("rsa enc", false, KeyRSA)
		s.P256Sig = s.Root.Issue("p256 sig", true, KeyP256)
		s.P256Enc = s.Root.Issue("p256 enc", false, KeyP256)
		s.EdSig = s.Root.Issue("ed sig", true, KeyEd25519)
		std = s
	})
	return std
}
